------------------------------- MODULE Chess -------------------------------
(***************************************************************************)
(* The rules of chess as an executable specification.                      *)
(*                                                                         *)
(* Squares are 1..64 from a1 (a1=1, h1=8, a8=57, h8=64).  A board is a     *)
(* 64-tuple of one-letter strings ("." = empty, upper case = White).  A    *)
(* position is a record [board, stm, castle, ep, half, full]; a move is a  *)
(* record with the nine attributes the implementation's accessors expose.  *)
(* As a state machine: Init = the seed positions, Next = play any legal    *)
(* move.  Every other module of the suite builds on these definitions.     *)
(***************************************************************************)
EXTENDS Naturals, Integers, Sequences, FiniteSets, TLC

Squares == 1..64
FileOf(sq) == (sq - 1) % 8          \* 0..7  (a..h)
RankOf(sq) == (sq - 1) \div 8       \* 0..7  (1..8)
Sq(f, r) == r * 8 + f + 1
OnBoard(f, r) == f >= 0 /\ f <= 7 /\ r >= 0 /\ r <= 7

Empty == "."
WhitePieces == {"P", "N", "B", "R", "Q", "K"}
BlackPieces == {"p", "n", "b", "r", "q", "k"}
ColorOf(pc) == IF pc \in WhitePieces THEN "w" ELSE IF pc \in BlackPieces THEN "b" ELSE "-"
Other(c) == IF c = "w" THEN "b" ELSE "w"
KindOf(pc) == CASE pc \in {"P", "p"} -> "P" [] pc \in {"N", "n"} -> "N" [] pc \in {"B", "b"} -> "B"
                [] pc \in {"R", "r"} -> "R" [] pc \in {"Q", "q"} -> "Q" [] pc \in {"K", "k"} -> "K"
                [] OTHER -> "."
Lower == [x \in {"P", "N", "B", "R", "Q", "K"} |->
            CASE x = "P" -> "p" [] x = "N" -> "n" [] x = "B" -> "b" [] x = "R" -> "r" [] x = "Q" -> "q" [] OTHER -> "k"]
Mk(c, kind) == IF c = "w" THEN kind ELSE Lower[kind]

Dirs == << <<0, 1>>, <<0, -1>>, <<1, 0>>, <<-1, 0>>, <<1, 1>>, <<-1, 1>>, <<1, -1>>, <<-1, -1>> >>
RookDirs == {1, 2, 3, 4}
BishopDirs == {5, 6, 7, 8}
KnightOffs == { <<1, 2>>, <<2, 1>>, <<2, -1>>, <<1, -2>>, <<-1, -2>>, <<-2, -1>>, <<-2, 1>>, <<-1, 2>> }
KingOffs == { <<1, 1>>, <<1, 0>>, <<1, -1>>, <<0, -1>>, <<-1, -1>>, <<-1, 0>>, <<-1, 1>>, <<0, 1>> }

RECURSIVE RayWalk(_, _, _, _)
RayWalk(f, r, df, dr) ==
  IF OnBoard(f + df, r + dr) THEN <<Sq(f + df, r + dr)>> \o RayWalk(f + df, r + dr, df, dr) ELSE <<>>

\* Rays[sq][d] : sequence of squares from sq (exclusive) to the edge in direction d
Rays == [sq \in Squares |-> [d \in 1..8 |-> RayWalk(FileOf(sq), RankOf(sq), Dirs[d][1], Dirs[d][2])]]

Jump(sq, offs) == { Sq(FileOf(sq) + o[1], RankOf(sq) + o[2]) : o \in { x \in offs : OnBoard(FileOf(sq) + x[1], RankOf(sq) + x[2]) } }
KnightTo == [sq \in Squares |-> Jump(sq, KnightOffs)]
KingTo == [sq \in Squares |-> Jump(sq, KingOffs)]
PawnAtt == [c \in {"w", "b"} |-> [sq \in Squares |->
             Jump(sq, IF c = "w" THEN {<<-1, 1>>, <<1, 1>>} ELSE {<<-1, -1>>, <<1, -1>>})]]

\* squares reached sliding from sq in direction d on board b: up to and including first blocker
Slide(b, sq, d) ==
  LET ray == Rays[sq][d]
      blk == { i \in 1..Len(ray) : b[ray[i]] # Empty }
      n == IF blk = {} THEN Len(ray) ELSE CHOOSE i \in blk : \A j \in blk : i <= j
  IN { ray[i] : i \in 1..n }

PieceAttacks(b, sq) ==
  LET pc == b[sq] k == KindOf(pc) IN
  CASE k = "P" -> PawnAtt[ColorOf(pc)][sq]
    [] k = "N" -> KnightTo[sq]
    [] k = "K" -> KingTo[sq]
    [] k = "B" -> UNION { Slide(b, sq, d) : d \in BishopDirs }
    [] k = "R" -> UNION { Slide(b, sq, d) : d \in RookDirs }
    [] k = "Q" -> UNION { Slide(b, sq, d) : d \in 1..8 }
    [] OTHER -> {}

Own(b, c) == { sq \in Squares : ColorOf(b[sq]) = c }
AttackSet(b, c) == (UNION { PieceAttacks(b, sq) : sq \in Own(b, c) }) \ Own(b, c)

\* first piece met walking from sq in direction d (or Empty)
FirstOn(b, sq, d) ==
  LET ray == Rays[sq][d]
      blk == { i \in 1..Len(ray) : b[ray[i]] # Empty }
  IN IF blk = {} THEN Empty ELSE b[ray[CHOOSE i \in blk : \A j \in blk : i <= j]]

IsAttacked(b, sq, by) ==
  \/ \E s \in KnightTo[sq] : b[s] = Mk(by, "N")
  \/ \E s \in KingTo[sq] : b[s] = Mk(by, "K")
  \/ \E s \in PawnAtt[Other(by)][sq] : b[s] = Mk(by, "P")
  \/ \E d \in RookDirs : FirstOn(b, sq, d) \in {Mk(by, "R"), Mk(by, "Q")}
  \/ \E d \in BishopDirs : FirstOn(b, sq, d) \in {Mk(by, "B"), Mk(by, "Q")}

KingSq(b, c) == CHOOSE sq \in Squares : b[sq] = Mk(c, "K")
InCheck(b, c) == IsAttacked(b, KingSq(b, c), Other(c))

\* ---- moves -------------------------------------------------------------
Mv(from, to, pc, cap, promo, ep, castle, dbl) ==
  [from |-> from, to |-> to, piece |-> KindOf(pc), color |-> ColorOf(pc),
   capture |-> cap, promo |-> promo, ep |-> ep, castle |-> castle, dbl |-> dbl]

PromoKinds == {"Q", "R", "B", "N"}
Fwd(c) == IF c = "w" THEN 1 ELSE -1
HomeRank(c) == IF c = "w" THEN 1 ELSE 6
LastRank(c) == IF c = "w" THEN 7 ELSE 0

PawnMoves(p, sq) ==
  LET b == p.board c == p.stm pc == b[sq]
      f == FileOf(sq) r == RankOf(sq)
      r1 == r + Fwd(c)
      one == IF OnBoard(f, r1) /\ b[Sq(f, r1)] = Empty THEN {Sq(f, r1)} ELSE {}
      two == IF one # {} /\ r = HomeRank(c) /\ b[Sq(f, r + 2 * Fwd(c))] = Empty THEN {Sq(f, r + 2 * Fwd(c))} ELSE {}
      caps == { t \in PawnAtt[c][sq] : ColorOf(b[t]) = Other(c) }
      eps == { t \in PawnAtt[c][sq] : t = p.ep }
      Expand(t, cap) == IF RankOf(t) = LastRank(c)
                        THEN { Mv(sq, t, pc, cap, k, FALSE, ".", FALSE) : k \in PromoKinds }
                        ELSE { Mv(sq, t, pc, cap, ".", FALSE, ".", FALSE) }
  IN (UNION { Expand(t, ".") : t \in one })
     \cup { Mv(sq, t, pc, ".", ".", FALSE, ".", TRUE) : t \in two }
     \cup (UNION { Expand(t, KindOf(b[t])) : t \in caps })
     \cup { Mv(sq, t, pc, "P", ".", TRUE, ".", FALSE) : t \in eps }

PieceMoves(p, sq) ==
  LET b == p.board c == p.stm pc == b[sq] IN
  { Mv(sq, t, pc, KindOf(b[t]), ".", FALSE, ".", FALSE) : t \in { x \in PieceAttacks(b, sq) : ColorOf(b[x]) # c } }

CastleMoves(p) ==
  LET b == p.board c == p.stm
      k0 == IF c = "w" THEN 5 ELSE 61
      opp == Other(c)
      ok(side) ==
        LET right == IF c = "w" THEN side ELSE Lower[side]
            path == IF side = "K" THEN {k0 + 1, k0 + 2} ELSE {k0 - 1, k0 - 2, k0 - 3}
            safe == IF side = "K" THEN {k0, k0 + 1, k0 + 2} ELSE {k0, k0 - 1, k0 - 2}
            rsq == IF side = "K" THEN k0 + 3 ELSE k0 - 4
        IN /\ right \in p.castle
           /\ b[k0] = Mk(c, "K") /\ b[rsq] = Mk(c, "R")
           /\ \A s \in path : b[s] = Empty
           /\ \A s \in safe : ~IsAttacked(b, s, opp)
  IN { Mv(k0, IF side = "K" THEN k0 + 2 ELSE k0 - 2, Mk(c, "K"), ".", ".", FALSE, side, FALSE) : side \in { s \in {"K", "Q"} : ok(s) } }

PseudoLegal(p) ==
  (UNION { IF KindOf(p.board[sq]) = "P" THEN PawnMoves(p, sq) ELSE PieceMoves(p, sq) : sq \in Own(p.board, p.stm) })
  \cup CastleMoves(p)

BoardAfter(p, m) ==
  LET b == p.board c == p.stm
      placed == IF m.promo # "." THEN Mk(c, m.promo) ELSE b[m.from]
      epVictim == IF m.ep THEN m.to - 8 * Fwd(c) ELSE 0
      rookFrom == IF m.castle = "K" THEN m.from + 3 ELSE IF m.castle = "Q" THEN m.from - 4 ELSE 0
      rookTo == IF m.castle = "K" THEN m.from + 1 ELSE IF m.castle = "Q" THEN m.from - 1 ELSE 0
  IN [sq \in Squares |->
        IF sq = m.to THEN placed
        ELSE IF sq = m.from \/ sq = epVictim \/ sq = rookFrom THEN Empty
        ELSE IF sq = rookTo THEN Mk(c, "R")
        ELSE b[sq]]

Apply(p, m) ==
  LET c == p.stm
      nb == BoardAfter(p, m)
      lost == (IF m.piece = "K" THEN (IF c = "w" THEN {"K", "Q"} ELSE {"k", "q"}) ELSE {})
              \cup (IF 8 \in {m.from, m.to} THEN {"K"} ELSE {}) \cup (IF 1 \in {m.from, m.to} THEN {"Q"} ELSE {})
              \cup (IF 64 \in {m.from, m.to} THEN {"k"} ELSE {}) \cup (IF 57 \in {m.from, m.to} THEN {"q"} ELSE {})
  IN [board |-> nb, stm |-> Other(c), castle |-> p.castle \ lost,
      ep |-> IF m.dbl THEN m.from + 8 * Fwd(c) ELSE 0,
      half |-> IF m.piece = "P" \/ m.capture # "." THEN 0 ELSE p.half + 1,
      full |-> IF c = "b" THEN p.full + 1 ELSE p.full]

Legal(p) == { m \in PseudoLegal(p) : ~InCheck(BoardAfter(p, m), p.stm) }

RECURSIVE Perft(_, _)
Perft(p, d) == IF d = 0 THEN 1 ELSE
  LET ms == Legal(p) IN
  IF d = 1 THEN Cardinality(ms) ELSE
  LET RECURSIVE Sum(_)
      Sum(S) == IF S = {} THEN 0 ELSE LET m == CHOOSE x \in S : TRUE IN Perft(Apply(p, m), d - 1) + Sum(S \ {m})
  IN Sum(ms)

StartBoard == << "R","N","B","Q","K","B","N","R", "P","P","P","P","P","P","P","P",
                 ".",".",".",".",".",".",".",".", ".",".",".",".",".",".",".",".",
                 ".",".",".",".",".",".",".",".", ".",".",".",".",".",".",".",".",
                 "p","p","p","p","p","p","p","p", "r","n","b","q","k","b","n","r" >>
StartPos == [board |-> StartBoard, stm |-> "w", castle |-> {"K", "Q", "k", "q"}, ep |-> 0, half |-> 0, full |-> 1]
\* ---- status, domain, keys, symmetry ------------------------------------------
Status(p) == IF Legal(p) # {} THEN "open" ELSE IF InCheck(p.board, p.stm) THEN "mate" ELSE "stalemate"

CountPc(b, pc) == Cardinality({ sq \in Squares : b[sq] = pc })

\* The quantifier domain of C01/C02: "every legal chess position"
LegalPosition(p) ==
  /\ CountPc(p.board, "K") = 1 /\ CountPc(p.board, "k") = 1
  /\ ~InCheck(p.board, Other(p.stm))
  /\ \A sq \in Squares : KindOf(p.board[sq]) = "P" => RankOf(sq) \notin {0, 7}
  /\ ("K" \in p.castle => p.board[5] = "K" /\ p.board[8] = "R")
  /\ ("Q" \in p.castle => p.board[5] = "K" /\ p.board[1] = "R")
  /\ ("k" \in p.castle => p.board[61] = "k" /\ p.board[64] = "r")
  /\ ("q" \in p.castle => p.board[61] = "k" /\ p.board[57] = "r")
  /\ p.castle \subseteq {"K", "Q", "k", "q"}
  /\ (p.ep # 0 =>
        IF p.stm = "w"
        THEN RankOf(p.ep) = 5 /\ p.board[p.ep] = Empty /\ p.board[p.ep + 8] = Empty /\ p.board[p.ep - 8] = "p"
        ELSE RankOf(p.ep) = 2 /\ p.board[p.ep] = Empty /\ p.board[p.ep - 8] = Empty /\ p.board[p.ep + 8] = "P")

\* an en-passant capture is really available (legal), resp. at least pseudo-legal
EpLegal(p) == \E m \in Legal(p) : m.ep
EpPseudo(p) == p.ep # 0 /\ \E s \in PawnAtt[Other(p.stm)][p.ep] : p.board[s] = Mk(p.stm, "P")

\* what decides the set of legal moves (and their successors up to the clocks)
PosKey(p) == <<p.board, p.stm, p.castle, IF EpLegal(p) THEN p.ep ELSE 0>>
\* the coarser identity of the first sentence of C08
SameForHash(p, q) == p.board = q.board /\ p.stm = q.stm /\ p.castle = q.castle /\ p.ep = q.ep

FlipSq(sq) == Sq(FileOf(sq), 7 - RankOf(sq))
SwapCase(pc) == IF pc \in WhitePieces THEN Lower[pc]
                ELSE IF pc \in BlackPieces THEN (CHOOSE u \in WhitePieces : Lower[u] = pc) ELSE pc
Mirror(p) == [board |-> [sq \in Squares |-> SwapCase(p.board[FlipSq(sq)])],
              stm |-> Other(p.stm),
              castle |-> { SwapCase(c) : c \in p.castle },
              ep |-> IF p.ep = 0 THEN 0 ELSE FlipSq(p.ep),
              half |-> p.half, full |-> p.full]
MirrorMove(m) == [m EXCEPT !.from = FlipSq(m.from), !.to = FlipSq(m.to), !.color = Other(m.color)]

\* coordinate resolution (UCI move text, State::by_performing_moves): promo = "." when absent
Resolve(p, from, to, promo) == { m \in Legal(p) : m.from = from /\ m.to = to /\ (promo # "." => m.promo = promo) }

\* material in pawn units times ten (P=10 N=30 B=30 R=50 Q=90), for the domain clause of C05
Worth(pc) == CASE KindOf(pc) = "P" -> 10 [] KindOf(pc) = "N" -> 30 [] KindOf(pc) = "B" -> 30
               [] KindOf(pc) = "R" -> 50 [] KindOf(pc) = "Q" -> 90 [] OTHER -> 0
RECURSIVE SumWorth(_, _, _)
SumWorth(b, c, sq) == IF sq > 64 THEN 0 ELSE (IF ColorOf(b[sq]) = c THEN Worth(b[sq]) ELSE 0) + SumWorth(b, c, sq + 1)
Imbalance(b) == LET w == SumWorth(b, "w", 1) k == SumWorth(b, "b", 1) IN IF w >= k THEN w - k ELSE k - w

\* ---- draw claims the engine deliberately does NOT implement (documented deviation) -------------
\* The searcher knows only its own "position already searched in this game = draw" rule (Search.tla,
\* HistoryHit); the fifty-move rule, threefold repetition by the arbiter's definition and dead positions
\* are not modelled by the implementation, so no property refers to them.  They are defined here so that
\* the deviation is explicit and a future implementation has a specification to be bound to.
FiftyMoveClaimable(p) == p.half >= 100
Minor(b, c) == { sq \in Squares : b[sq] \in {Mk(c, "N"), Mk(c, "B")} }
InsufficientMaterial(p) ==
  /\ \A sq \in Squares : KindOf(p.board[sq]) \notin {"P", "R", "Q"}
  /\ Cardinality(Minor(p.board, "w")) + Cardinality(Minor(p.board, "b")) <= 1
\* with insufficient material nobody can be mated: a consistency lemma checked on enumerated endgames
DeadPositionLemma(p) == InsufficientMaterial(p) => Status(p) # "mate"

\* ---- the rules as a state machine ---------------------------------------------
VARIABLE pos
ChessInit(seeds) == pos \in seeds
ChessNext == \E m \in Legal(pos) : pos' = Apply(pos, m)

\* design invariants of the rules themselves (checked by TLC on explorations)
DomainClosed == LegalPosition(pos)
AttackRedundancy == \A c \in {"w", "b"} : \A sq \in Squares :
                      (ColorOf(pos.board[sq]) # c) => ((sq \in AttackSet(pos.board, c)) <=> IsAttacked(pos.board, sq, c))
RightsImplyHome == LegalPosition(pos)   \* part of LegalPosition; kept as a named property
MirrorInvolution == Mirror(Mirror(pos)) = pos
MirrorCommutes == Legal(Mirror(pos)) = { MirrorMove(m) : m \in Legal(pos) }
StatusTotal == Status(pos) \in {"open", "mate", "stalemate"}
=============================================================================
