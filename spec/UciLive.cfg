CONSTANTS
 Positions = {"book","open","open2","term"}
 MaxCmds = 6
 PinnedNewGame = FALSE
SPECIFICATION FairSpec
INVARIANT NoUnsolicitedBestmove
INVARIANT AnsweredAtBarrier
INVARIANT AtMostOneDue
INVARIANT CleanAfterNewGame
CHECK_DEADLOCK FALSE
PROPERTY EventuallyAnswered
