-------------------------------- MODULE BookModel --------------------------------
(* Design-level statement of C16/C08 for the book: games are paths of an abstract game graph; the   *)
(* book maps Key[node] to the moves played there.  BookSound: whatever is offered for a node is     *)
(* legal in it.  With Collide = TRUE two nodes with different move sets share a key (D1 shape) and  *)
(* TLC must find the counterexample.                                                                *)
EXTENDS Naturals, FiniteSets, TLC
CONSTANTS Collide, MaxPlies
Nodes == {"R", "Rc", "A", "B", "C"}
Moves == [n \in Nodes |-> CASE n = "R" -> {"a", "b"} [] n = "Rc" -> {"a", "b", "castle"} [] n = "A" -> {"x"} [] n = "B" -> {"x"} [] n = "C" -> {}]
Child == [n \in Nodes |-> CASE n = "R" -> [x \in {"a", "b"} |-> IF x = "a" THEN "A" ELSE "B"]
                          [] n = "Rc" -> [x \in {"a", "b", "castle"} |-> IF x = "a" THEN "A" ELSE IF x = "b" THEN "B" ELSE "C"]
                          [] n = "A" -> [x \in {"x"} |-> "C"] [] n = "B" -> [x \in {"x"} |-> "C"] [] n = "C" -> [x \in {} |-> "C"]]
Key == [n \in Nodes |-> IF Collide /\ n = "Rc" THEN "R" ELSE n]
Keys == { Key[n] : n \in Nodes }
VARIABLES book, cursor, plies, played
Init == book = [k \in Keys |-> {}] /\ cursor = "Rc" /\ plies = 0 /\ played = {}
Play == \E m \in Moves[cursor] : /\ plies < MaxPlies
                                /\ book' = [book EXCEPT ![Key[cursor]] = @ \cup {m}]
                                /\ played' = played \cup {<<cursor, m>>}
                                /\ cursor' = Child[cursor][m] /\ plies' = plies + 1
NewGame == cursor' \in {"R", "Rc"} /\ plies' = 0 /\ UNCHANGED <<book, played>>
Next == Play \/ NewGame
Lookup(n) == book[Key[n]]
BookSound == \A n \in Nodes : Lookup(n) \subseteq Moves[n]
BookExact == \A n \in Nodes : (\A x \in Nodes : Key[x] = Key[n] => x = n) => Lookup(n) = { pm[2] : pm \in { q \in played : q[1] = n } }
=============================================================================
