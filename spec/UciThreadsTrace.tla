-------------------------- MODULE UciThreadsTrace --------------------------
(***************************************************************************)
(* Trace validation of the thread-level events of real `weechess uci`       *)
(* sessions (hook `thread_event`: one numbered stderr line per blocking     *)
(* point; producers log before they send / drop / exit, consumers after     *)
(* they received / joined, so the numbering never contradicts causality)    *)
(* against UciThreads.tla.  Every event must be the next step of the thread *)
(* it names; the commands the driver sent tell the client's steps apart.    *)
(*   prop "DRIFT": the thread model no longer describes the code.           *)
(*   prop "C07": an invariant of the session fails on the recorded          *)
(*   execution (a go left unanswered when its search is collected, two      *)
(*   bestmoves, a search ending without a line, a send on a dead channel).  *)
(***************************************************************************)
EXTENDS UciThreads, Json, IOUtils, TLCExt

Rec == ndJsonDeserialize(IOEnv.TRACE)
VARIABLES l,
          wb      \* searches whose writer thread has announced its bestmove line (W_Best) and not yet ended
tv == <<vars, l, wb>>
Diag(prop, ok, what) == IF ok THEN TRUE ELSE PrintT(<<"DIAG", ToJson([prop |-> prop, l |-> l, what |-> what])>>)
IsEvent(e) == l <= Len(Rec) /\ Rec[l].ev = e /\ l' = l + 1
IsThread(a) == l <= Len(Rec) /\ Rec[l].ev = "Thread" /\ Rec[l].a = a /\ l' = l + 1
Where == [session |-> Rec[l].session, seq |-> Rec[l].seq]

TSession ==
  /\ IsEvent("Session")
  /\ pos' = "open" /\ artifact' = NoArt /\ owed' = 0 /\ extra' = FALSE /\ stale' = FALSE /\ fresh' = TRUE /\ n' = 0 /\ alive' = TRUE
  /\ cur' = 0 /\ nid' = 1 /\ main' = Idle
  /\ root' = [s \in Ids |-> "-"] /\ sart' = [s \in Ids |-> NoArt] /\ ctl' = [s \in Ids |-> 0]
  /\ cst' = [s \in Ids |-> "none"] /\ sst' = [s \in Ids |-> "none"] /\ it' = [s \in Ids |-> 0] /\ token' = [s \in Ids |-> FALSE]
  /\ status' = [s \in Ids |-> 0] /\ closed' = [s \in Ids |-> FALSE] /\ wst' = [s \in Ids |-> "none"] /\ best' = [s \in Ids |-> FALSE]
  /\ out' = [s \in Ids |-> 0] /\ tst' = [s \in Ids |-> "none"] /\ panic' = FALSE /\ foreign' = FALSE

\* the step named by the event is taken when the model allows it; otherwise the mismatch is reported and the
\* event's effect is forced so that the rest of the session is still examined
Step(a, s, A, Forced) ==
  IF ENABLED A THEN A
  ELSE /\ Diag("DRIFT", FALSE, [kind |-> "thread event is not the next step of that thread in UciThreads.tla", action |-> a, search |-> s, at |-> Where,
                                state |-> [cur |-> cur, cst |-> cst[s], sst |-> sst[s], wst |-> wst[s], ctl |-> ctl[s], status |-> status[s], closed |-> closed[s]]])
       /\ Forced

Keep(vs) == UNCHANGED vs
TS_Report == /\ IsThread("S_Report")
             /\ LET s == Rec[l].s IN
                  /\ Diag("DRIFT", sst[s] = "run", [kind |-> "report from a search thread that is not running", search |-> s, at |-> Where])
                  /\ it' = [it EXCEPT ![s] = @ + 1] /\ status' = [status EXCEPT ![s] = @ + 1]
                  /\ Diag("C07", Kind(root[s]) = "open", [kind |-> "a position without legal moves reported a line", search |-> s, at |-> Where])
             /\ UNCHANGED <<gvars, cur, nid, main, root, sart, ctl, cst, sst, token, closed, wst, best, out, tst, panic, foreign>>

\* the search thread leaves its iteration loop (silent) and tells its control thread
TS_SendStop ==
  /\ IsThread("S_SendStop")
  /\ LET s == Rec[l].s IN
       /\ Diag("DRIFT", sst[s] = "run", [kind |-> "search thread finished twice or before it started", search |-> s, at |-> Where])
       /\ Diag("C07", Kind(root[s]) = "term" \/ it[s] >= 1, [kind |-> "search of a position with legal moves ended without reporting a line (its go cannot be answered)", search |-> s, stopped |-> token[s], at |-> Where])
       /\ Diag("C07", cst[s] # "done", [kind |-> "search thread's Stop to its own control thread found the receiver gone (unwrap panics)", search |-> s, at |-> Where])
       /\ sst' = [sst EXCEPT ![s] = "exit"]
       /\ ctl' = [ctl EXCEPT ![s] = IF cst[s] = "done" THEN @ ELSE @ + 1]
  /\ UNCHANGED <<gvars, cur, nid, main, root, sart, cst, it, token, status, closed, wst, best, out, tst, panic, foreign>>

TS_Exit == /\ IsThread("S_Exit")
           /\ LET s == Rec[l].s IN Step("S_Exit", s, S_Exit(s), sst' = [sst EXCEPT ![s] = "done"] /\ closed' = [closed EXCEPT ![s] = TRUE]
                                        /\ UNCHANGED <<gvars, cur, nid, main, root, sart, ctl, cst, it, token, status, wst, best, out, tst, panic, foreign>>)
TC_Recv == /\ IsThread("C_Recv")
           /\ LET s == Rec[l].s IN Step("C_Recv", s, C_Recv(s), cst' = [cst EXCEPT ![s] = "cancel"]
                                        /\ UNCHANGED <<gvars, cur, nid, main, root, sart, ctl, sst, it, token, status, closed, wst, best, out, tst, panic, foreign>>)
TC_Cancel == /\ IsThread("C_Cancel")
             /\ LET s == Rec[l].s IN Step("C_Cancel", s, C_Cancel(s), token' = [token EXCEPT ![s] = TRUE] /\ cst' = [cst EXCEPT ![s] = "join"]
                                          /\ UNCHANGED <<gvars, cur, nid, main, root, sart, ctl, sst, it, status, closed, wst, best, out, tst, panic, foreign>>)
TC_Join == /\ IsThread("C_Join")
           /\ LET s == Rec[l].s IN Step("C_Join", s, C_Join(s), cst' = [cst EXCEPT ![s] = "done"]
                                        /\ UNCHANGED <<gvars, cur, nid, main, root, sart, ctl, sst, it, token, status, closed, wst, best, out, tst, panic, foreign>>)
TW_Recv == /\ IsThread("W_Recv")
           /\ LET s == Rec[l].s IN Step("W_Recv", s, W_Recv(s), best' = [best EXCEPT ![s] = TRUE]
                                        /\ UNCHANGED <<gvars, cur, nid, main, root, sart, ctl, cst, sst, it, token, status, closed, wst, out, tst, panic, foreign>>)
\* the writer is about to print `bestmove` (logged inside the branch that prints)
TW_Best == /\ IsThread("W_Best") /\ wb' = wb \cup {Rec[l].s} /\ UNCHANGED vars
TW_End == /\ IsThread("W_End")
          /\ LET s == Rec[l].s printed == s \in wb IN
               /\ Diag("C07", best[s] => printed, [kind |-> "writer thread ended without printing a bestmove although a line had been reported", search |-> s, at |-> Where])
               /\ Diag("C07", printed => best[s], [kind |-> "writer thread printed a bestmove without ever having received a line", search |-> s, at |-> Where])
               /\ Diag("C07", Kind(root[s]) = "open" => printed, [kind |-> "writer thread ended without a bestmove for a position with legal moves", search |-> s, at |-> Where])
               /\ Step("W_End", s, W_End(s), wst' = [wst EXCEPT ![s] = "done"] /\ out' = [out EXCEPT ![s] = IF printed THEN @ + 1 ELSE @]
                                        /\ UNCHANGED <<pos, artifact, owed, extra, stale, fresh, n, alive, cur, nid, main, root, sart, ctl, cst, sst, it, token, status, closed, best, tst, panic, foreign>>)
          /\ wb' = wb \ {Rec[l].s}
TT_Fire == /\ IsThread("T_Fire")
           /\ LET s == Rec[l].s IN Step("T_Fire", s, T_Fire(s), tst' = [tst EXCEPT ![s] = "done"]
                                        /\ UNCHANGED <<gvars, cur, nid, main, root, sart, ctl, cst, sst, it, token, status, closed, wst, best, out, panic, foreign>>)

\* the client: a command that finds no search in its hands completes at once; one that does logs M_Stop / M_JoinC / M_JoinW
Arg(e) == IF e.cmd = "position" THEN e.kind ELSE "-"
TM_Cmd == /\ IsEvent("M_Cmd")
          /\ LET e == Rec[l] IN
               /\ Diag("DRIFT", cur = 0 /\ main.phase = "idle", [kind |-> "driver expected no search in the client's hands", cmd |-> e.cmd, at |-> Where])
               /\ M_Begin(e.cmd, Arg(e))
TM_Stop == /\ IsThread("M_Stop")
           /\ LET e == Rec[l] IN
                /\ Diag("DRIFT", cur = e.s /\ main.phase = "idle", [kind |-> "client cancels a search it does not hold", search |-> e.s, cur |-> cur, at |-> Where])
                /\ IF cur = e.s /\ main.phase = "idle" THEN M_Begin(e.cmd, Arg(e)) ELSE UNCHANGED vars
TM_JoinC == /\ IsThread("M_JoinC")
            /\ Step("M_JoinC", Rec[l].s, M_JoinC, main' = [main EXCEPT !.phase = "joinW"]
                        /\ UNCHANGED <<gvars, cur, nid, root, sart, ctl, cst, sst, it, token, status, closed, wst, best, out, tst, panic, foreign>>)
TM_JoinW == /\ IsThread("M_JoinW")
            /\ LET s == Rec[l].s IN
                 /\ Diag("C07", wst[s] = "done" /\ (Kind(root[s]) = "open" => out[s] = 1),
                         [kind |-> "client let go of a search before its bestmove was printed", search |-> s, at |-> Where, out |-> out[s]])
                 /\ Step("M_JoinW", s, M_JoinW, Complete(main.cmd, main.arg, IF main.cmd = "ucinewgame" THEN artifact ELSE sart[cur]))
\* the search the client has just spawned carries the id the model gave it
TM_Spawn == /\ l <= Len(Rec) /\ Rec[l].ev = "Thread" /\ Rec[l].a \in {"A_Spawn", "M_Spawn"} /\ l' = l + 1
            /\ Diag("DRIFT", cur = Rec[l].s, [kind |-> "spawned search is not the one the model expects", search |-> Rec[l].s, cur |-> cur, at |-> Where])
            /\ UNCHANGED vars

\* session invariants, judged after every step
Judge ==
  /\ Diag("C07", BestmoveAtMostOnce', [kind |-> "two bestmoves for one search", at |-> Where])
  /\ Diag("C07", AtMostOneSearching', [kind |-> "two searches running at once", at |-> Where])
  /\ Diag("C07", NoUnsolicitedBestmove' \/ extra, [kind |-> "bestmove that no go was waiting for", at |-> Where])
  /\ Diag("C07", AnsweredAtBarrier', [kind |-> "command returned while a go is still unanswered", at |-> Where])

TraceInit == Init /\ l = 1 /\ wb = {}
TraceNext == (\/ (TSession /\ wb' = {})
              \/ TW_Best \/ TW_End
              \/ ((TS_Report \/ TS_SendStop \/ TS_Exit \/ TC_Recv \/ TC_Cancel \/ TC_Join \/ TW_Recv \/ TT_Fire
                   \/ TM_Cmd \/ TM_Stop \/ TM_JoinC \/ TM_JoinW \/ TM_Spawn) /\ UNCHANGED wb)) /\ Judge
Accepted == IF TLCGet("stats").diameter - 1 = Len(Rec) THEN PrintT(<<"ACCEPTED", Len(Rec)>>)
            ELSE PrintT(<<"STUCK", TLCGet("stats").diameter, Len(Rec)>>)
=============================================================================
