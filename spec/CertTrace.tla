-------------------------------- MODULE CertTrace --------------------------------
(***************************************************************************)
(* Strategy certificates (C06 outside the tablebase families).             *)
(* An untrusted exhaustive solver in the harness looks for a forced mate   *)
(* within 5 plies and prints its complete strategy: at attacker nodes one  *)
(* move, at defender nodes *every* legal reply, checkmate at every leaf.   *)
(* This module checks the tree with Chess.tla (StrategyOK); a tree that    *)
(* passes establishes WinIn(root, n) - only the check is trusted.  The     *)
(* engine's fresh searches of the same position at depth n..n+2 must then  *)
(* report a winning terminal evaluation (completeness half of C06), and    *)
(* where a second certificate shows that the engine's own first move keeps *)
(* a forced mate it is checked too.  An invalid or missing certificate     *)
(* yields no verdict (SKIP), never a violation.                            *)
(***************************************************************************)
EXTENDS ChessText, Json, IOUtils, TLCExt

Rec == ndJsonDeserialize(IOEnv.TRACE)
VARIABLES l, nodes, pending, root, ok, minimal, lastTree
tvars == <<pos, l, nodes, pending, root, ok, minimal, lastTree>>
ToSetOf(seq) == { seq[i] : i \in 1..Len(seq) }
Norm(p) == [board |-> p.board, stm |-> p.stm, castle |-> ToSetOf(p.castle), ep |-> p.ep, half |-> p.half, full |-> p.full]
Diag(prop, ok0, what) == IF ok0 THEN TRUE ELSE PrintT(<<"DIAG", ToJson([prop |-> prop, l |-> l, what |-> what])>>)
Skip(why) == PrintT(<<"SKIP", ToJson([l |-> l, why |-> why])>>)
IsEvent(e) == l <= Len(Rec) /\ Rec[l].ev = e /\ l' = l + 1 /\ UNCHANGED pos
Unanswered == { d \in DOMAIN pending : pending[d] # {} }
Ident(p) == <<p.board, p.stm, p.castle, p.ep>>
NoTree == [fen |-> "", n |-> 0, mv |-> StartPos, valid |-> FALSE]

TCertRoot ==
  /\ IsEvent("CertRoot")
  /\ LET e == Rec[l] p == Norm(e.pos) IN
       /\ root' = [p |-> p, fen |-> e.fen, n |-> e.n, what |-> e.what, dom |-> LegalPosition(p)]
       /\ nodes' = <<>> /\ pending' = <<>> /\ ok' = LegalPosition(p)
       /\ minimal' = (IF minimal.fen = e.fen THEN minimal ELSE NoTree) /\ lastTree' = NoTree

\* one node of the solver's strategy tree: local conditions of StrategyOK (ok is the conjunction so far)
TCert ==
  /\ IsEvent("Cert")
  /\ LET e == Rec[l]
         p == Norm(e.pos)
         par == IF e.parent = 0 THEN [kind |-> "root", p |-> root.p, mv |-> StartPos] ELSE nodes[e.parent]
         fine == /\ e.id = Len(nodes) + 1 /\ e.parent <= Len(nodes)
                 /\ CASE e.kind = "att" -> /\ (IF par.kind = "root" THEN Ident(p) = Ident(root.p) /\ nodes = <<>>
                                               ELSE par.kind = "def" /\ Ident(p) \in pending[e.parent])
                                           /\ e.mv \in Legal(p)
                      [] e.kind = "def" -> par.kind = "att" /\ Ident(p) = Ident(Apply(par.p, par.mv)) /\ Legal(p) # {} /\ e.ply < root.n
                      [] e.kind = "mate" -> par.kind = "att" /\ Ident(p) = Ident(Apply(par.p, par.mv)) /\ Status(p) = "mate" /\ e.ply <= root.n
                      [] OTHER -> FALSE
     IN /\ ok' = (ok /\ fine)
        /\ nodes' = Append(nodes, [kind |-> e.kind, p |-> p, mv |-> (IF e.kind = "att" THEN e.mv ELSE StartPos)])
        /\ pending' = [d \in DOMAIN pending \cup (IF e.kind = "def" THEN {e.id} ELSE {}) |->
                         IF e.kind = "def" /\ d = e.id THEN { Ident(Apply(p, r)) : r \in Legal(p) }      \* all replies, from the specification
                         ELSE IF d = e.parent /\ e.kind = "att" THEN pending[d] \ {Ident(p)}
                         ELSE pending[d]]
  /\ UNCHANGED <<root, minimal, lastTree>>

TCertEnd ==
  /\ IsEvent("CertEnd")
  /\ LET valid == ok /\ Unanswered = {} /\ Len(nodes) >= 2 /\ nodes[1].kind = "att"
         t == [fen |-> root.fen, n |-> root.n, mv |-> (IF Len(nodes) >= 1 THEN nodes[1].mv ELSE StartPos), valid |-> valid] IN
       /\ (IF valid THEN TRUE ELSE Skip([kind |-> "certificate rejected: no verdict from it", fen |-> root.fen, what |-> root.what]))
       /\ lastTree' = t
       /\ minimal' = (IF root.what = "minimal" THEN t ELSE minimal)
  /\ UNCHANGED <<nodes, pending, root, ok>>

\* a fresh search of the certified position by the real engine
TCertSearch ==
  /\ IsEvent("CertSearch")
  /\ LET e == Rec[l] IN
       IF ~(minimal.valid /\ minimal.fen = e.fen) THEN Skip([kind |-> "no valid certificate for this position", fen |-> e.fen])
       ELSE /\ Diag("C06", e.status = "ok", [kind |-> "search panicked", pos |-> e.fen])
            /\ (IF e.depth < minimal.n THEN TRUE ELSE
                  Diag("C06", e.claim, [kind |-> "forced mate within the depth limit not reported (certified by an exhaustive solver, certificate checked by TLC)",
                                        pos |-> e.fen, plies |-> minimal.n, depth |-> e.depth, workers |-> e.workers, seed |-> e.seed, eval |-> e.eval]))
            /\ (IF ~(e.claim /\ e.has_mv) THEN TRUE ELSE
                  /\ Diag("C03", e.mv \in Legal(root.p), [kind |-> "reported first move is not legal", pos |-> e.fen, mv |-> Lan(e.mv)])
                  /\ (IF lastTree.valid /\ lastTree.fen = e.fen /\ lastTree.mv = e.mv THEN TRUE
                      ELSE Skip([kind |-> "no certificate that the reported first move keeps the mate (inconclusive)", fen |-> e.fen])))
  /\ UNCHANGED <<nodes, pending, root, ok, minimal, lastTree>>

TraceInit == /\ l = 1 /\ pos = StartPos /\ nodes = <<>> /\ pending = <<>> /\ ok = FALSE /\ minimal = NoTree /\ lastTree = NoTree
             /\ root = [p |-> StartPos, fen |-> "", n |-> 0, what |-> "", dom |-> TRUE]
TraceNext == TCertRoot \/ TCert \/ TCertEnd \/ TCertSearch
Accepted == IF TLCGet("stats").diameter - 1 = Len(Rec) THEN PrintT(<<"ACCEPTED", Len(Rec)>>)
            ELSE PrintT(<<"STUCK", TLCGet("stats").diameter, Len(Rec)>>)
=============================================================================
