INIT Init
NEXT Next
INVARIANT LocalOK
CHECK_DEADLOCK FALSE
