--------------------------------- MODULE UciGen ---------------------------------
(* Specification -> implementation: command sequences of Uci.tla (simulation), one per line; the  *)
(* driver instantiates the abstract positions with concrete FENs / move lists and feeds them to   *)
(* the real `weechess uci` process.  "fin" marks where the model lets the search finish by itself *)
(* (the driver then waits for the bestmove before sending the next command).                      *)
EXTENDS Uci, Json, TLCExt
VARIABLE hist
GInit == Init /\ hist = <<pos>>
GNext ==
  \/ SearchFinish /\ hist' = Append(hist, "fin")
  \/ Go /\ hist' = Append(hist, "go")
  \/ Stop /\ hist' = Append(hist, "stop")
  \/ NewGame /\ hist' = Append(hist, "ucinewgame")
  \/ IsReady /\ hist' = Append(hist, "isready")
  \/ Garbage /\ hist' = Append(hist, "garbage")
  \/ \E p \in Positions : Position(p) /\ hist' = Append(hist, "position " \o p)
  \/ (n = MaxCmds /\ Quit /\ hist' = Append(hist, "quit"))
Emit == (~alive) => PrintT(<<"GEN", ToJson([start |-> hist[1], cmds |-> Tail(hist)])>>)
GInit2 == GInit
=============================================================================
