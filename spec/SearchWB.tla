-------------------------------- MODULE SearchWB --------------------------------
(***************************************************************************)
(* White-box trace validation: one worker's event stream of a real search  *)
(* (hooks in analyze_recursive and inside the table's insert/find) is      *)
(* replayed against the algorithm of Search.tla with the game instantiated *)
(* by Chess.tla: the validator keeps the worker's stack of frames and      *)
(* demands that every step is the one the model prescribes given what the  *)
(* shared table answered (the table's answers are inputs - they are        *)
(* validated separately by TTTrace.tla).                                   *)
(*   Property constraints (reported as violations):                        *)
(*     C03  a stored move is legal in the position it is stored for        *)
(*     C08  one table key never stands for two different PosKeys           *)
(*     C17  a non-root node found in the history returns the draw score    *)
(*   Everything else is model-conformance (prop = "DRIFT"): it says the    *)
(*   model no longer describes the code, never that a property is broken.  *)
(***************************************************************************)
EXTENDS ChessText, Json, IOUtils, TLCExt

Rec == ndJsonDeserialize(IOEnv.TRACE)
VARIABLES l, stk, keymap, hist, ret, root, mate
tvars == <<pos, l, stk, keymap, hist, ret, root, mate>>
ToSetOf(seq) == { seq[i] : i \in 1..Len(seq) }
Norm(p) == [board |-> p.board, stm |-> p.stm, castle |-> ToSetOf(p.castle), ep |-> p.ep, half |-> p.half, full |-> p.full]
Diag(prop, ok, what) == IF ok THEN TRUE ELSE PrintT(<<"DIAG", ToJson([prop |-> prop, l |-> l, what |-> what])>>)
IsEvent(e) == l <= Len(Rec) /\ Rec[l].ev = e /\ l' = l + 1
Top == stk[Len(stk)]
Pop == SubSeq(stk, 1, Len(stk) - 1)
SetTop(f) == [stk EXCEPT ![Len(stk)] = f]
Unknown == 0 - 999999      \* a returned value the stream does not determine (quiescence that was not sampled)
MateAt(k) == IF k + 1 <= Len(mate) THEN mate[k + 1] ELSE mate[Len(mate)]
KeyId(p) == <<p.board, p.stm, p.castle, IF p.ep # 0 /\ EpLegal(p) THEN p.ep ELSE 0>>

\* header: root position, history keys, mate-score table
THeader ==
  /\ IsEvent("WbStart")
  /\ root' = Norm(Rec[l].root) /\ hist' = ToSetOf(Rec[l].history_keys) /\ mate' = Rec[l].mate
  /\ stk' = <<>> /\ keymap' = <<>> /\ ret' = Unknown /\ UNCHANGED pos

TWorkerStart == /\ IsEvent("WorkerStart") /\ stk' = <<>> /\ ret' = Unknown /\ UNCHANGED <<pos, keymap, hist, root, mate>>
\* at the end of every worker's iteration: no two keys met so far in this search stand for the same position (a position
\* is entered under one key however it is reached - quiet move, capture, move that gives up a right)
OneKeyPerPosition == Cardinality({ keymap[k] : k \in DOMAIN keymap }) = Cardinality(DOMAIN keymap)
TwoKeys == LET ks == CHOOSE pr \in (DOMAIN keymap) \X (DOMAIN keymap) : pr[1] # pr[2] /\ keymap[pr[1]] = keymap[pr[2]] IN
           [kind |-> "one position is entered under two different table keys in one search", keys |-> <<ks[1], ks[2]>>, board |-> keymap[ks[1]][1], stm |-> keymap[ks[1]][2]]
TWorkerEnd == /\ IsEvent("WorkerEnd") /\ Diag("DRIFT", stk = <<>>, [kind |-> "worker ended with frames on its stack", depth |-> Len(stk)])
              /\ (IF OneKeyPerPosition THEN TRUE ELSE Diag("C08", FALSE, TwoKeys))
              /\ stk' = <<>> /\ UNCHANGED <<pos, keymap, hist, ret, root, mate>>

\* ---- entering a node -----------------------------------------------------------------------
TEnter ==
  /\ IsEvent("Enter")
  /\ LET e == Rec[l]
         p == IF stk = <<>> THEN root ELSE Apply(Top.p, Top.mv)
         known == e.key \in DOMAIN keymap
     IN /\ (IF stk = <<>> THEN Diag("DRIFT", e.cur = 0 /\ e.ext = 0, [kind |-> "root frame depths", cur |-> e.cur])
            ELSE /\ Diag("DRIFT", Top.st = "descended", [kind |-> "node entered without a move being made"])
                 /\ Diag("DRIFT", e.cur = Top.cur + 1 + Top.extend /\ e.max = Top.max + Top.extend /\ e.ext = Top.ext + Top.extend,
                         [kind |-> "child depths", cur |-> e.cur, max |-> e.max, parentcur |-> Top.cur, parentmax |-> Top.max, extend |-> Top.extend])
                 /\ Diag("DRIFT", e.alpha = 0 - Top.b /\ e.beta = 0 - Top.a, [kind |-> "child window is not the negated parent window", alpha |-> e.alpha, beta |-> e.beta, pa |-> Top.a, pb |-> Top.b]))
        /\ Diag("C08", ~known \/ keymap[e.key] = KeyId(p), [kind |-> "one table key stands for two positions with different legal moves", key |-> e.key, pos |-> ToFen(p)])
        /\ keymap' = IF known THEN keymap ELSE [k \in DOMAIN keymap \cup {e.key} |-> IF k = e.key THEN KeyId(p) ELSE keymap[k]]
        /\ stk' = Append(IF stk = <<>> THEN stk ELSE SetTop([Top EXCEPT !.st = "waiting"]),
                         [p |-> p, key |-> e.key, a |-> e.alpha, b |-> e.beta, cur |-> e.cur, max |-> e.max, ext |-> e.ext, st |-> "entered",
                          mv |-> StartPos, hasmv |-> FALSE, extend |-> 0, best |-> FALSE, any |-> FALSE, probe |-> "none", pval |-> 0,
                          tried |-> {}, lastk |-> 0 - 100000, stat |-> 0, a0 |-> e.alpha])
  /\ ret' = Unknown /\ UNCHANGED <<pos, hist, root, mate>>

\* a frame finishes with value v (its own point of view): hand it to the parent
Finish(v) == /\ stk' = Pop /\ ret' = v

THistoryHit ==
  /\ IsEvent("HistoryHit")
  /\ Diag("C17", Top.cur > 0 /\ Top.key \in hist, [kind |-> "history rule fired for a node that is not a recorded non-root position", key |-> Top.key])
  /\ Diag("DRIFT", Top.st = "entered", [kind |-> "history test not first"])
  /\ Finish(0) /\ UNCHANGED <<pos, keymap, hist, root, mate>>

\* the table's answer for this node (an input); what the node does with it is prescribed
TFind ==
  /\ IsEvent("Find")
  /\ LET e == Rec[l] IN
       IF stk = <<>> THEN UNCHANGED stk    \* line reconstruction after the iteration (main thread): not part of a worker's stack
       ELSE /\ Diag("DRIFT", Top.st = "entered" /\ e.key = Top.key, [kind |-> "table probe out of place", key |-> e.key])
            /\ Diag("C17", ~(Top.cur > 0 /\ Top.key \in hist), [kind |-> "recorded position was searched instead of being scored as a draw", pos |-> ToFen(Top.p)])
            /\ LET usable == e.hit /\ (e.entry.max - e.entry.depth) >= (Top.max - Top.cur)
                   a1 == IF usable /\ e.entry.kind = "L" /\ e.entry.eval > Top.a THEN e.entry.eval ELSE Top.a
                   b1 == IF usable /\ e.entry.kind = "U" /\ e.entry.eval < Top.b THEN e.entry.eval ELSE Top.b
                   cut == usable /\ (e.entry.kind = "E" \/ a1 >= b1)
               IN stk' = SetTop([Top EXCEPT !.st = "probed", !.a = a1, !.b = b1, !.probe = (IF cut THEN "return" ELSE "go"), !.pval = (IF e.hit THEN e.entry.eval ELSE 0)])
  /\ ret' = Unknown /\ UNCHANGED <<pos, keymap, hist, root, mate>>

TProbeReturn ==
  /\ IsEvent("ProbeReturn")
  /\ Diag("DRIFT", Top.st = "probed" /\ Top.probe = "return" /\ Rec[l].value = Top.pval, [kind |-> "table value used although the model would search on (or other value)", value |-> Rec[l].value])
  /\ Finish(Rec[l].value) /\ UNCHANGED <<pos, keymap, hist, root, mate>>

\* Quiescence.  Without `detail` the capture search below the horizon is one opaque step whose value the stream
\* does not determine; with `detail` (the hook samples some of the calls) every node of it follows as Q-events and
\* is held to the quiescence rule of Search.tla (QS/QSLoop) with the static scores as inputs.
TQuiesce ==
  /\ IsEvent("Quiesce")
  /\ Diag("DRIFT", Top.st = "probed" /\ Top.probe = "go" /\ Top.cur >= Top.max, [kind |-> "quiescence entered above the horizon or after a usable table hit", cur |-> Top.cur, max |-> Top.max])
  /\ (IF "detail" \in DOMAIN Rec[l] /\ Rec[l].detail THEN stk' = SetTop([Top EXCEPT !.st = "quiescing"]) /\ ret' = Unknown ELSE Finish(Unknown))
  /\ UNCHANGED <<pos, keymap, hist, root, mate>>

IsQ(f) == f.st \in {"qentered", "qloop", "qdescended", "qwaiting", "qcut"}
WorthQ(k) == CASE k = "P" -> 10 [] k = "N" -> 30 [] k = "B" -> 35 [] k = "R" -> 50 [] k = "Q" -> 90 [] k = "K" -> 1000 [] OTHER -> 0
OrderKey(m) == WorthQ(m.piece) - WorthQ(m.capture)      \* the code sorts by -(captured - mover), stable
CapturesOf(p) == { m \in Legal(p) : m.capture # "." }
QFrame(p, a, b, cur) == [p |-> p, key |-> "", a |-> a, b |-> b, cur |-> cur, max |-> 0, ext |-> 0, st |-> "qentered",
                         mv |-> StartPos, hasmv |-> FALSE, extend |-> 0, best |-> FALSE, any |-> FALSE, probe |-> "none", pval |-> 0,
                         tried |-> {}, lastk |-> 0 - 100000, stat |-> 0, a0 |-> a]

TQEnter ==
  /\ IsEvent("QEnter")
  /\ LET e == Rec[l] IN
       IF Top.st = "quiescing"
       THEN /\ Diag("DRIFT", e.alpha = Top.a /\ e.beta = Top.b /\ e.depth = Top.cur, [kind |-> "quiescence does not start with the node's window and ply", alpha |-> e.alpha, beta |-> e.beta, depth |-> e.depth])
            /\ stk' = Append(Pop, QFrame(Top.p, e.alpha, e.beta, e.depth))
       ELSE /\ Diag("DRIFT", Top.st = "qdescended", [kind |-> "quiescence node entered without a capture being made", st |-> Top.st])
            /\ Diag("DRIFT", e.alpha = 0 - Top.b /\ e.beta = 0 - Top.a /\ e.depth = Top.cur + 1, [kind |-> "quiescence child window is not the negated parent window one ply deeper", alpha |-> e.alpha, beta |-> e.beta, depth |-> e.depth])
            /\ stk' = Append(SetTop([Top EXCEPT !.st = "qwaiting"]), QFrame(Apply(Top.p, Top.mv), e.alpha, e.beta, e.depth))
  /\ ret' = Unknown /\ UNCHANGED <<pos, keymap, hist, root, mate>>

TQTerminal ==
  /\ IsEvent("QTerminal")
  /\ LET v == Rec[l].value st == Status(Top.p) IN
       /\ Diag("DRIFT", Top.st = "qentered", [kind |-> "quiescence terminal out of place", st |-> Top.st])
       /\ Diag("C05", st # "open" /\ v = (IF st = "mate" THEN 0 - MateAt(Top.cur) ELSE 0), [kind |-> "quiescence node without legal moves is not scored as mate/stalemate at its ply", pos |-> ToFen(Top.p), value |-> v, ply |-> Top.cur])
       /\ Finish(v)
  /\ UNCHANGED <<pos, keymap, hist, root, mate>>

\* the static score is an input; what the node does with it is prescribed (stand-pat)
TQStatic ==
  /\ IsEvent("QStatic")
  /\ LET e == Rec[l] caps == CapturesOf(Top.p) IN
       /\ Diag("DRIFT", Top.st = "qentered" /\ Legal(Top.p) # {}, [kind |-> "static score taken out of place or in a position without moves", st |-> Top.st, pos |-> ToFen(Top.p)])
       /\ Diag("DRIFT", e.quiet = (caps = {}), [kind |-> "quiescence disagrees with the rules about whether a capture is possible", pos |-> ToFen(Top.p), quiet |-> e.quiet])
       /\ stk' = SetTop([Top EXCEPT !.stat = e.static,
                                      !.st = (IF caps = {} \/ e.static >= Top.b THEN "qcut" ELSE "qloop"),
                                      !.pval = (IF caps = {} THEN e.static ELSE Top.b),
                                      !.a = (IF caps # {} /\ e.static < Top.b /\ e.static > Top.a THEN e.static ELSE Top.a)])
  /\ ret' = Unknown /\ UNCHANGED <<pos, keymap, hist, root, mate>>

TQDescend ==
  /\ IsEvent("QDescend")
  /\ LET m == Rec[l].mv IN
       /\ Diag("DRIFT", Top.st = "qloop", [kind |-> "quiescence capture loop entered out of place", st |-> Top.st])
       /\ Diag("DRIFT", m \in CapturesOf(Top.p) /\ m \notin Top.tried, [kind |-> "quiescence followed a move that is not a legal capture, or one twice", pos |-> ToFen(Top.p), mv |-> Lan(m)])
       /\ Diag("DRIFT", OrderKey(m) >= Top.lastk, [kind |-> "captures tried out of the most-valuable-victim order", pos |-> ToFen(Top.p), mv |-> Lan(m)])
       /\ stk' = SetTop([Top EXCEPT !.st = "qdescended", !.mv = m, !.hasmv = TRUE, !.tried = Top.tried \cup {m}, !.lastk = OrderKey(m)])
  /\ ret' = Unknown /\ UNCHANGED <<pos, keymap, hist, root, mate>>

TQChild ==
  /\ IsEvent("QChild")
  /\ LET v == Rec[l].value IN
       /\ Diag("DRIFT", Top.st = "qwaiting", [kind |-> "quiescence child value without a child", st |-> Top.st])
       /\ Diag("DRIFT", ret # Unknown /\ v = 0 - ret, [kind |-> "quiescence child value is not the negated value the child returned", value |-> v, returned |-> ret])
       /\ stk' = SetTop(IF v >= Top.b THEN [Top EXCEPT !.st = "qcut", !.pval = Top.b]
                        ELSE IF v > Top.a THEN [Top EXCEPT !.st = "qloop", !.a = v]
                        ELSE [Top EXCEPT !.st = "qloop"])
  /\ ret' = Unknown /\ UNCHANGED <<pos, keymap, hist, root, mate>>

TQReturn ==
  /\ IsEvent("QReturn")
  /\ LET v == Rec[l].value IN
       /\ Diag("DRIFT", Top.st \in {"qcut", "qloop"}, [kind |-> "quiescence return out of place", st |-> Top.st])
       \* sound whatever the search looks like: a "being mated" score says every reply loses, so every reply must have been tried
       \* (only for an exact value: one the node raised above the alpha it was given, not a fail-low or fail-high bound)
       /\ (IF v <= 0 - mate[Len(mate)] /\ Top.st = "qloop" /\ v > Top.a0
           THEN Diag("C06", Legal(Top.p) \subseteq Top.tried, [kind |-> "capture search returned a being-mated score for a position with legal moves it never tried", pos |-> ToFen(Top.p), value |-> v,
                                                                 tried |-> Cardinality(Top.tried), legal |-> Cardinality(Legal(Top.p))])
           ELSE TRUE)
       /\ (IF Top.st = "qcut"
           THEN Diag("DRIFT", v = Top.pval, [kind |-> "quiescence stand-pat or cut-off returned another value than the rule gives", pos |-> ToFen(Top.p), value |-> v, expected |-> Top.pval, static |-> Top.stat])
           ELSE /\ Diag("DRIFT", CapturesOf(Top.p) \subseteq Top.tried, [kind |-> "quiescence returned before trying every legal capture", pos |-> ToFen(Top.p), tried |-> Cardinality(Top.tried), captures |-> Cardinality(CapturesOf(Top.p))])
                /\ Diag("DRIFT", v = Top.a, [kind |-> "quiescence returned something other than its alpha", value |-> v, alpha |-> Top.a]))
       /\ Finish(v)
  /\ UNCHANGED <<pos, keymap, hist, root, mate>>

\* the hook's event budget ran out inside a sampled capture search: its frames are dropped and its value is unknown
RECURSIVE DropQ(_)
DropQ(s) == IF s # <<>> /\ IsQ(s[Len(s)]) THEN DropQ(SubSeq(s, 1, Len(s) - 1)) ELSE s
TQAbandon == /\ IsEvent("QAbandon") /\ stk' = DropQ(stk) /\ ret' = Unknown /\ UNCHANGED <<pos, keymap, hist, root, mate>>

TDescend ==
  /\ IsEvent("Descend")
  /\ LET e == Rec[l] IN
       /\ Diag("DRIFT", Top.st \in {"probed", "loop"} /\ Top.probe = "go" /\ Top.cur < Top.max, [kind |-> "move loop entered out of place", st |-> Top.st])
       /\ Diag("C03", e.mv \in Legal(Top.p), [kind |-> "search descended along a move that is not legal", pos |-> ToFen(Top.p), mv |-> Lan(e.mv)])
       /\ Diag("DRIFT", e.extend = (IF InCheck(Top.p.board, Top.p.stm) /\ Top.ext < 16 THEN 1 ELSE 0), [kind |-> "extension differs from the check-extension rule", extend |-> e.extend])
       /\ stk' = SetTop([Top EXCEPT !.st = "descended", !.mv = e.mv, !.hasmv = TRUE, !.extend = e.extend])
  /\ ret' = Unknown /\ UNCHANGED <<pos, keymap, hist, root, mate>>

TChild ==
  /\ IsEvent("Child")
  /\ LET e == Rec[l] v == e.value IN
       /\ Diag("DRIFT", Top.st = "waiting", [kind |-> "child value without a child", st |-> Top.st])
       /\ Diag("DRIFT", ret = Unknown \/ v = 0 - ret, [kind |-> "child value is not the negated value the child returned", value |-> v, returned |-> ret])
       /\ stk' = SetTop(IF v >= Top.b THEN [Top EXCEPT !.st = "cut", !.any = TRUE]
                        ELSE IF v > Top.a THEN [Top EXCEPT !.st = "loop", !.a = v, !.best = TRUE, !.any = TRUE, !.pval = 0]
                        ELSE [Top EXCEPT !.st = "loop", !.any = TRUE])
       \* remember which move raised alpha: it is the one still in .mv when best was set
  /\ ret' = Unknown /\ UNCHANGED <<pos, keymap, hist, root, mate>>

\* stores: under the table's lock; the stored move must be legal in the node's position (C03)
TInsert ==
  /\ IsEvent("Insert")
  /\ LET e == Rec[l] en == e.entry IN
       IF stk = <<>> THEN UNCHANGED <<stk, ret>>
       ELSE /\ Diag("C03", en.mv \in Legal(Top.p), [kind |-> "a move that is not legal in the position was stored in the table for it", pos |-> ToFen(Top.p), mv |-> Lan(en.mv)])
            /\ Diag("DRIFT", e.key = Top.key /\ en.depth = Top.cur /\ en.max = Top.max, [kind |-> "store under another key or depth", key |-> e.key])
            /\ (IF Top.st = "cut"
                THEN /\ Diag("DRIFT", en.kind = "L" /\ en.eval = Top.b /\ en.mv = Top.mv, [kind |-> "beta cut-off stored with the wrong bound kind, value or move", stored |-> en.kind, eval |-> en.eval, beta |-> Top.b])
                     /\ stk' = Pop /\ ret' = Top.b
                ELSE /\ Diag("DRIFT", Top.st = "loop" /\ Top.best /\ en.kind = "E" /\ en.eval = Top.a, [kind |-> "final store with the wrong bound kind or value", stored |-> en.kind, eval |-> en.eval, alpha |-> Top.a, st |-> Top.st])
                     /\ stk' = SetTop([Top EXCEPT !.st = "stored"]) /\ ret' = Unknown)
  /\ UNCHANGED <<pos, keymap, hist, root, mate>>

TTerminal ==
  /\ IsEvent("Terminal")
  /\ LET v == Rec[l].value st == Status(Top.p) IN
       /\ Diag("DRIFT", Top.st \in {"probed", "loop"} /\ ~Top.any, [kind |-> "terminal evaluation although a child was searched"])
       /\ Diag("C05", st # "open" /\ v = (IF st = "mate" THEN 0 - MateAt(Top.cur) ELSE 0), [kind |-> "node without searched children is not scored as mate/stalemate at its ply", pos |-> ToFen(Top.p), value |-> v, ply |-> Top.cur])
       /\ Finish(v)
  /\ UNCHANGED <<pos, keymap, hist, root, mate>>

TReturn ==
  /\ IsEvent("Return")
  /\ Diag("DRIFT", Top.st \in {"stored", "loop"} /\ Rec[l].value = Top.a /\ (Top.st = "stored" <=> Top.best), [kind |-> "node returned something other than its alpha", value |-> Rec[l].value, alpha |-> Top.a, st |-> Top.st])
  /\ Finish(Rec[l].value) /\ UNCHANGED <<pos, keymap, hist, root, mate>>

TInterrupt == /\ IsEvent("Interrupt") /\ stk' = <<>> /\ ret' = Unknown /\ UNCHANGED <<pos, keymap, hist, root, mate>>
TOther == /\ l <= Len(Rec) /\ Rec[l].ev \in {"IterStart", "SearchStart", "Used"} /\ l' = l + 1 /\ UNCHANGED <<pos, stk, keymap, hist, ret, root, mate>>

TraceInit == l = 1 /\ pos = StartPos /\ stk = <<>> /\ keymap = <<>> /\ hist = {} /\ ret = Unknown /\ root = StartPos /\ mate = <<0>>
TraceNext == THeader \/ TWorkerStart \/ TWorkerEnd \/ TEnter \/ THistoryHit \/ TFind \/ TProbeReturn \/ TQuiesce \/ TQEnter \/ TQTerminal \/ TQStatic \/ TQDescend \/ TQChild \/ TQReturn \/ TQAbandon \/ TDescend \/ TChild \/ TInsert \/ TTerminal \/ TReturn \/ TInterrupt \/ TOther
Accepted == IF TLCGet("stats").diameter - 1 = Len(Rec) THEN PrintT(<<"ACCEPTED", Len(Rec)>>)
            ELSE PrintT(<<"STUCK", TLCGet("stats").diameter, Len(Rec)>>)
=============================================================================
