------------------------------- MODULE UciInd -------------------------------
(***************************************************************************)
(* The safety properties of Uci.tla for command sequences of ANY length:   *)
(* Apalache proves IndInv inductive (it holds initially and every step     *)
(* preserves it) for an arbitrary set of positions and an arbitrary        *)
(* MaxCmds, and IndInv implies the properties TLC checks up to MaxCmds = 6.*)
(*   apalache-mc check --cinit=ConstInit --init=Init    --inv=IndInv --length=0   *)
(*   apalache-mc check --cinit=ConstInit --init=IndInit --inv=IndInv --length=1   *)
(*   apalache-mc check --cinit=ConstInit --init=IndInit --inv=Props  --length=0   *)
(***************************************************************************)
EXTENDS Uci

\* @type: () => Bool;
ConstInit == /\ Positions \in SUBSET {"book", "open", "open2", "term", "tiny"} /\ Positions # {}
             /\ MaxCmds \in Nat /\ PinnedNewGame = FALSE

\* counterexample guard: with the pinned ucinewgame handler the invariant is not inductive (a memory survives ucinewgame)
\* @type: () => Bool;
ConstInitPinned == /\ Positions \in SUBSET {"book", "open", "open2", "term", "tiny"} /\ Positions # {}
                   /\ MaxCmds \in Nat /\ PinnedNewGame = TRUE

\* @type: ({ has: Bool, hist: Set(Str) }) => Bool;
ArtOK(a) == /\ a.has \in BOOLEAN /\ a.hist \subseteq Positions /\ (~a.has => a.hist = {})
TypeOK ==
  /\ pos \in Positions
  /\ search.st \in {"none", "run", "fin"} /\ ArtOK(search.art)
  /\ (search.st = "none" => search = NoSearch)
  /\ (search.st # "none" => search.root \in Positions /\ Kind(search.root) # "book" /\ search.art.has)
  /\ ArtOK(artifact)
  /\ owed \in {0, 1} /\ extra \in BOOLEAN /\ stale \in BOOLEAN /\ fresh \in BOOLEAN /\ alive \in BOOLEAN
  /\ n \in Nat /\ n <= MaxCmds

IndInv ==
  /\ TypeOK
  /\ ~extra /\ ~stale
  \* exactly the running search of a position with legal moves is owed a bestmove
  /\ (owed = 1) = (search.st = "run" /\ Kind(search.root) = "open")
  \* from ucinewgame until the next search there is neither a search nor a kept memory
  /\ (fresh => search.st = "none" /\ ~artifact.has)
  \* the client holds the memory in exactly one place
  /\ (search.st # "none" => ~artifact.has)

\* any state satisfying the invariant (first the variables are drawn from their types, then constrained)
IndInit ==
  /\ pos \in Positions
  /\ search \in [root : Positions \cup {"-"}, st : {"none", "run", "fin"}, art : [has : BOOLEAN, hist : SUBSET Positions]]
  /\ artifact \in [has : BOOLEAN, hist : SUBSET Positions]
  /\ owed \in {0, 1} /\ extra \in BOOLEAN /\ stale \in BOOLEAN /\ fresh \in BOOLEAN /\ alive \in BOOLEAN
  /\ n \in Nat
  /\ IndInv
Props == NoUnsolicitedBestmove /\ AnsweredAtBarrier /\ AtMostOneDue /\ CleanAfterNewGame
=============================================================================
