CONSTANTS
 GAME = "mate7"
 Collide = FALSE
 PriorTables = FALSE
 Nodes <- GNodes
 Root = "R"
 MoveIds <- GMoveIds
 Moves <- GMoves
 Child <- GChild
 Static <- GStatic
 Status <- GStatus
 Key <- GKey
 History = {}
 Workers = 2
 MaxIter = 3
 MinPar = 1
 Orders <- GOrdersOne
 K = 2
 LoopChecksFlag = TRUE
 AssertLine = FALSE
 CapOrder <- GCap
 SlotOf <- GSlot
 TagCheck = TRUE
 TinyTable = FALSE
 StopAllowed = TRUE
SPECIFICATION MCSpec
CHECK_DEADLOCK FALSE
INVARIANT LegalLine
INVARIANT ReportBeforeEnd
INVARIANT NoPanic
INVARIANT MateSound
PROPERTY StopObeyed
PROPERTY Termination
