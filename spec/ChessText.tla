------------------------------ MODULE ChessText ------------------------------
(***************************************************************************)
(* Text forms of positions and moves, written independently of the         *)
(* implementation: the canonical FEN of a position, every admissible SAN   *)
(* spelling of a move, the coordinate (LAN) form, and negative cases.      *)
(* TLC concatenates strings natively but cannot index into them, so text   *)
(* that has to be *read* crosses the boundary as arrays of one-character   *)
(* strings (Chars).                                                        *)
(***************************************************************************)
EXTENDS Chess, SequencesExt

FileCh == <<"a","b","c","d","e","f","g","h">>
RankCh == <<"1","2","3","4","5","6","7","8">>
SqName(sq) == FileCh[FileOf(sq) + 1] \o RankCh[RankOf(sq) + 1]

RECURSIVE Concat(_)
Concat(chars) == IF chars = <<>> THEN "" ELSE Head(chars) \o Concat(Tail(chars))

RECURSIVE RankFrom(_, _, _, _)
RankFrom(b, r, f, run) ==
  IF f = 8 THEN (IF run > 0 THEN ToString(run) ELSE "")
  ELSE LET pc == b[Sq(f, r)] IN
       IF pc = Empty THEN RankFrom(b, r, f + 1, run + 1)
       ELSE (IF run > 0 THEN ToString(run) ELSE "") \o pc \o RankFrom(b, r, f + 1, 0)
Placement(b) == RankFrom(b,7,0,0) \o "/" \o RankFrom(b,6,0,0) \o "/" \o RankFrom(b,5,0,0) \o "/" \o RankFrom(b,4,0,0) \o "/"
                \o RankFrom(b,3,0,0) \o "/" \o RankFrom(b,2,0,0) \o "/" \o RankFrom(b,1,0,0) \o "/" \o RankFrom(b,0,0,0)
CastleStr(c) == IF c = {} THEN "-" ELSE (IF "K" \in c THEN "K" ELSE "") \o (IF "Q" \in c THEN "Q" ELSE "")
                                        \o (IF "k" \in c THEN "k" ELSE "") \o (IF "q" \in c THEN "q" ELSE "")
\* counters cross as strings when they exceed TLC's 32-bit integers
FenWith(p, halfStr, fullStr) ==
  Placement(p.board) \o " " \o p.stm \o " " \o CastleStr(p.castle) \o " "
  \o (IF p.ep = 0 THEN "-" ELSE SqName(p.ep)) \o " " \o halfStr \o " " \o fullStr
ToFen(p) == FenWith(p, ToString(p.half), ToString(p.full))

\* every admissible SAN spelling of legal move m of position p (ms = Legal(p))
SanSpellings(p, ms, m) ==
  LET after == Apply(p, m)
      chk == InCheck(after.board, after.stm)
      sfx == {""} \cup (IF chk THEN (IF Legal(after) = {} THEN {"#"} ELSE {"+"}) ELSE {})
  IN IF m.castle = "K" THEN {"O-O" \o s : s \in sfx}
     ELSE IF m.castle = "Q" THEN {"O-O-O" \o s : s \in sfx}
     ELSE
     LET others == {x \in ms : x.piece = m.piece /\ x.to = m.to /\ x.from # m.from}
         fch == FileCh[FileOf(m.from) + 1]
         rch == RankCh[RankOf(m.from) + 1]
         fileOk == \A x \in others : FileOf(x.from) # FileOf(m.from)
         rankOk == \A x \in others : RankOf(x.from) # RankOf(m.from)
         dis == IF m.piece = "P"
                THEN (IF m.capture # "." THEN {fch, fch \o rch} ELSE {""})
                ELSE (IF others = {} THEN {""} ELSE {}) \cup (IF fileOk THEN {fch} ELSE {})
                     \cup (IF rankOk THEN {rch} ELSE {}) \cup {fch \o rch}
         pl == IF m.piece = "P" THEN "" ELSE m.piece
         cap == IF m.capture # "." THEN "x" ELSE ""
         pro == IF m.promo # "." THEN {"=" \o m.promo, m.promo} ELSE {""}
     IN {pl \o d \o cap \o SqName(m.to) \o pr \o s : d \in dis, pr \in pro, s \in sfx}

Lan(m) == SqName(m.from) \o SqName(m.to) \o (IF m.promo = "." THEN "" ELSE Lower[m.promo])

\* the short "Peg" form the CLI prints for a move (no disambiguation, no check marks)
Peg(m) == IF m.castle = "K" THEN "O-O" ELSE IF m.castle = "Q" THEN "O-O-O"
          ELSE (IF m.piece = "P" THEN "" ELSE m.piece)
               \o (IF m.capture # "." THEN (IF m.piece = "P" THEN FileCh[FileOf(m.from) + 1] ELSE "") \o "x" ELSE "")
               \o SqName(m.to) \o (IF m.promo # "." THEN "=" \o m.promo ELSE "")

\* pseudo-legal but illegal moves, spelled with the full origin square: must match nothing
Negatives(p, ms) ==
  {(IF m.piece = "P" THEN "" ELSE m.piece) \o SqName(m.from) \o (IF m.capture # "." THEN "x" ELSE "") \o SqName(m.to)
     \o (IF m.promo # "." THEN "=" \o m.promo ELSE "") : m \in PseudoLegal(p) \ ms}

\* ---- reading SAN (over one-character sequences): the set of legal moves a token denotes --------
IsFileCh(c) == \E i \in 1..8 : FileCh[i] = c
IsRankCh(c) == \E i \in 1..8 : RankCh[i] = c
FileIdx(c) == (CHOOSE i \in 1..8 : FileCh[i] = c) - 1
RankIdx(c) == (CHOOSE i \in 1..8 : RankCh[i] = c) - 1
RECURSIVE StripSuffix(_)
StripSuffix(t) == IF t # <<>> /\ Last(t) \in {"+", "#", "!", "?"} THEN StripSuffix(Front(t)) ELSE t
SanSuffix(t) == IF \E i \in 1..Len(t) : t[i] = "#" THEN "#" ELSE IF \E i \in 1..Len(t) : t[i] = "+" THEN "+" ELSE ""
SanResolve(p, tok) ==
  LET t == StripSuffix(tok) ms == Legal(p) IN
  IF t = <<"O","-","O","-","O">> THEN { m \in ms : m.castle = "Q" }
  ELSE IF t = <<"O","-","O">> THEN { m \in ms : m.castle = "K" }
  ELSE IF Len(t) < 2 THEN {}
  ELSE
  LET hasPromo == Last(t) \in {"Q","R","B","N"}
      promo == IF hasPromo THEN Last(t) ELSE "."
      t1 == IF hasPromo THEN (IF Len(t) >= 2 /\ t[Len(t) - 1] = "=" THEN SubSeq(t, 1, Len(t) - 2) ELSE Front(t)) ELSE t
  IN IF Len(t1) < 2 \/ ~IsRankCh(Last(t1)) \/ ~IsFileCh(t1[Len(t1) - 1]) THEN {}
  ELSE
  LET to == Sq(FileIdx(t1[Len(t1) - 1]), RankIdx(Last(t1)))
      r0 == SubSeq(t1, 1, Len(t1) - 2)
      piece == IF r0 # <<>> /\ r0[1] \in {"K","Q","R","B","N"} THEN r0[1] ELSE "P"
      r1 == IF piece # "P" THEN Tail(r0) ELSE r0
      isCap == r1 # <<>> /\ Last(r1) = "x"
      r2 == IF isCap THEN Front(r1) ELSE r1
      dfile == IF r2 # <<>> /\ IsFileCh(r2[1]) THEN FileIdx(r2[1]) ELSE 0 - 1
      r3 == IF dfile >= 0 THEN Tail(r2) ELSE r2
      drank == IF r3 # <<>> /\ IsRankCh(r3[1]) THEN RankIdx(r3[1]) ELSE 0 - 1
      r4 == IF drank >= 0 THEN Tail(r3) ELSE r3
  IN IF r4 # <<>> THEN {}
     ELSE { m \in ms : /\ m.castle = "." /\ m.piece = piece /\ m.to = to /\ m.promo = promo
                       /\ (dfile < 0 \/ FileOf(m.from) = dfile) /\ (drank < 0 \/ RankOf(m.from) = drank)
                       /\ (isCap <=> m.capture # ".") }
=============================================================================
