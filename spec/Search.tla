------------------------------- MODULE Search -------------------------------
(***************************************************************************)
(* The searcher as an algorithm (C03 C04 C06 C17 C19), written like the    *)
(* code: iterative deepening over `MaxIter` iterations; per iteration      *)
(* `ThreadCount` lazy-SMP workers, each an explicit stack of negamax       *)
(* frames over a *shared* transposition table keyed by Key[node]; one      *)
(* action per shared access (Probe = table read + the local steps up to    *)
(* the next shared access, Store = table write); the principal line is     *)
(* rebuilt from the table without any legality test (as the code does);    *)
(* a history set makes non-root nodes found in it score 0; a cancellation  *)
(* flag is polled every K nodes of a worker and - in the repaired loop -   *)
(* between iterations; the first iteration cannot be interrupted.          *)
(* The game is an abstract finite graph given by constants, so every       *)
(* interleaving, every prior table and every Stop instant can be explored. *)
(* Deliberate deviations of the pinned code are switches:                  *)
(*   LoopChecksFlag = FALSE   : the iteration loop never reads the flag    *)
(*   AssertLine = TRUE        : an empty root line panics                  *)
(***************************************************************************)
EXTENDS Integers, Sequences, FiniteSets, TLC

CONSTANTS Nodes, Root, MoveIds, Moves, Child, Static, Status, Key, History,
          Workers, MaxIter, MinPar, Orders, K, LoopChecksFlag, AssertLine, StopAllowed,
          SlotOf,    \* SlotOf[k]: the table slot a key is stored in (non-injective = a bounded table with displacement)
          TagCheck,  \* TRUE: a lookup compares the full key stored in the slot; FALSE: the deliberately broken lookup (C15 guard)
          CapOrder   \* CapOrder[n]: the capturing moves of n in the order the quiescence search tries them (<<>> = quiet)
\* Moves[n] \subseteq MoveIds ; Child[n][m] \in Nodes ; Static[n] \in Int (side to move's view)
\* Status[n] \in {"open","mate","stale"} ; Key[n] : table key ; Orders[n] : set of sequences (move orders)

INF == 100
Mate(ply) == INF + (IF ply < 10 THEN 10 - ply ELSE 0)
NoMove == "none"
Bogus == "bogus"          \* result of applying a move that is not legal in the node

VARIABLES tt,        \* [Keys -> entry | NoEntry]
          iter,      \* current iteration (0-based)
          stk,       \* [worker -> sequence of frames], top = last
          res,       \* [worker -> "idle" | "run" | <<"ok", v>>]
          reports,   \* sequence of [eval, line]
          phase,     \* "start" | "search" | "done"
          cancel,    \* the cancellation flag
          cnt,       \* per-worker node counter of the current iteration
          post,      \* ghost: nodes entered by a worker after the flag was set
          panicked   \* ghost: an assert!/unwrap of the code would have fired
vars == <<tt, iter, stk, res, reports, phase, cancel, cnt, post, panicked>>

Keys == {Key[n] : n \in Nodes}
Slots == { SlotOf[k] : k \in Keys }
NoEntry == [kind |-> "none"]
\* what a lookup by key k returns: the slot's entry if it was stored under k (or whatever is there, when TagCheck is off)
Lookup(t, k) == LET e == t[SlotOf[k]] IN IF e.kind # "none" /\ (~TagCheck \/ e.key = k) THEN e ELSE NoEntry

Max(a, b) == IF a >= b THEN a ELSE b
Min(a, b) == IF a <= b THEN a ELSE b

TerminalScore(n, ply) == IF Status[n] = "mate" THEN -Mate(ply) ELSE 0
\* Quiescence search as in the code: no table, no history, no cancellation; stand-pat on the static score,
\* captures only, fail-hard.  (Capture sequences are finite: CapOrder must be acyclic.)
RECURSIVE QS(_, _, _, _)
RECURSIVE QSLoop(_, _, _, _, _)
QS(n, ply, a, b) ==
  IF Moves[n] = {} THEN TerminalScore(n, ply)
  ELSE IF CapOrder[n] = <<>> THEN Static[n]
  ELSE IF Static[n] >= b THEN b
  ELSE QSLoop(n, ply, Max(a, Static[n]), b, CapOrder[n])
QSLoop(n, ply, a, b, todo) ==
  IF todo = <<>> THEN a
  ELSE LET v == 0 - QS(Child[n][Head(todo)], ply + 1, 0 - b, 0 - a) IN
       IF v >= b THEN b ELSE QSLoop(n, ply, Max(a, v), b, Tail(todo))
Quiesce(n, ply, a, b) == QS(n, ply, a, b)

Frame(n, a, b, cur, mx) == [n |-> n, a |-> a, b |-> b, cur |-> cur, mx |-> mx,
                            todo |-> <<>>, cm |-> NoMove, best |-> NoMove, kind |-> "U", any |-> FALSE, ph |-> "enter"]

Top(s) == s[Len(s)]
Pop(s) == SubSeq(s, 1, Len(s) - 1)
SetTop(s, f) == [s EXCEPT ![Len(s)] = f]

(* Deliver value v (from the point of view of the side to move in the popped frame) to the
   parent on top of s; continue locally until the next shared access.  Returns [s, out]
   where out = <<"run">> or <<"ok", value>>. *)
RECURSIVE Deliver(_, _)
RECURSIVE Advance(_)
Deliver(s, v) ==
  IF s = <<>> THEN [s |-> <<>>, out |-> <<"ok", v>>]
  ELSE LET f == Top(s) e == -v IN
       IF e >= f.b THEN [s |-> SetTop(s, [f EXCEPT !.ph = "storeCut", !.any = TRUE]), out |-> <<"run">>]
       ELSE LET f2 == IF e > f.a THEN [f EXCEPT !.a = e, !.best = f.cm, !.kind = "E", !.any = TRUE]
                                 ELSE [f EXCEPT !.any = TRUE]
            IN Advance(SetTop(s, f2))
\* top frame is in its move loop: take next move or finish
Advance(s) ==
  LET f == Top(s) IN
  IF f.todo # <<>> THEN
     LET m == Head(f.todo) c == Child[f.n][m]
         f2 == [f EXCEPT !.todo = Tail(f.todo), !.cm = m]
     IN [s |-> Append(SetTop(s, f2), Frame(c, -f.b, -f.a, f.cur + 1, f.mx)), out |-> <<"run">>]
  ELSE IF ~f.any THEN Deliver(Pop(s), TerminalScore(f.n, f.cur))       \* no legal move
  ELSE IF f.best # NoMove THEN [s |-> SetTop(s, [f EXCEPT !.ph = "storeFinal"]), out |-> <<"run">>]
  ELSE Deliver(Pop(s), f.a)

\* ---- one shared read: probe (plus history test, quiescence, move generation) ----
Probe(w) ==
  /\ phase = "search" /\ res[w] = <<"run">> /\ stk[w] # <<>> /\ Top(stk[w]).ph = "enter"
  /\ LET s == stk[w] f == Top(s) k == Key[f.n] e == Lookup(tt, k) IN
     \E ord \in Orders[f.n] :
       LET hit == e.kind # "none" /\ (e.mx - e.cur) >= (f.mx - f.cur)
           a1 == IF hit /\ e.kind = "L" THEN Max(f.a, e.eval) ELSE f.a
           b1 == IF hit /\ e.kind = "U" THEN Min(f.b, e.eval) ELSE f.b
           r == IF f.cur > 0 /\ k \in History THEN Deliver(Pop(s), 0)
                ELSE IF hit /\ e.kind = "E" THEN Deliver(Pop(s), e.eval)
                ELSE IF hit /\ a1 >= b1 THEN Deliver(Pop(s), e.eval)
                ELSE IF f.cur >= f.mx THEN Deliver(Pop(s), Quiesce(f.n, f.cur, a1, b1))
                ELSE Advance(SetTop(s, [f EXCEPT !.a = a1, !.b = b1, !.todo = ord, !.ph = "loop", !.cm = NoMove]))
           interrupted == (cnt[w] + 1) % K = 0 /\ cancel /\ iter > 0      \* iteration 0 runs under a token that is never cancelled
       IN /\ stk' = [stk EXCEPT ![w] = IF interrupted THEN <<>> ELSE r.s]
          /\ res' = [res EXCEPT ![w] = IF interrupted THEN <<"int">> ELSE r.out]
  /\ cnt' = [cnt EXCEPT ![w] = cnt[w] + 1]
  /\ post' = [post EXCEPT ![w] = post[w] + (IF cancel THEN 1 ELSE 0)]
  /\ UNCHANGED <<tt, iter, reports, phase, cancel, panicked>>

\* ---- one shared write: store ----
Store(w) ==
  /\ phase = "search" /\ res[w] = <<"run">> /\ stk[w] # <<>> /\ Top(stk[w]).ph \in {"storeCut", "storeFinal"}
  /\ LET s == stk[w] f == Top(s) k == Key[f.n]
         cut == f.ph = "storeCut"
         ent == [kind |-> IF cut THEN "L" ELSE f.kind, mv |-> IF cut THEN f.cm ELSE f.best,
                 cur |-> f.cur, mx |-> f.mx, eval |-> IF cut THEN f.b ELSE f.a, key |-> k]
         r == Deliver(Pop(s), IF cut THEN f.b ELSE f.a)
     IN /\ tt' = [tt EXCEPT ![SlotOf[k]] = ent]
        /\ stk' = [stk EXCEPT ![w] = r.s]
        /\ res' = [res EXCEPT ![w] = r.out]
  /\ UNCHANGED <<iter, reports, phase, cancel, cnt, post, panicked>>

\* ---- driver ----
ThreadCount == IF iter < MinPar THEN 1 ELSE Workers
Active == 0..(ThreadCount - 1)
DepthOf(i) == (IF i % 2 = 1 /\ iter > 0 THEN iter - 1 ELSE iter) + 1

StartIteration ==
  /\ phase = "start" /\ (LoopChecksFlag => (~cancel \/ iter = 0))
  /\ cnt' = [w \in 0..(Workers - 1) |-> 0] /\ UNCHANGED <<cancel, post, panicked>>
  /\ stk' = [w \in 0..(Workers - 1) |-> IF w \in Active THEN <<Frame(Root, -Mate(0), Mate(0), 0, DepthOf(w))>> ELSE <<>>]
  /\ res' = [w \in 0..(Workers - 1) |-> IF w \in Active THEN <<"run">> ELSE <<"idle">>]
  /\ phase' = "search"
  /\ UNCHANGED <<tt, iter, reports>>

\* walk the table from the root key, applying stored moves without a legality test
RECURSIVE Line(_, _, _)
Line(t, n, left) ==
  IF left = 0 \/ n = Bogus THEN <<>>
  ELSE LET e == Lookup(t, Key[n]) IN
       IF e.kind = "none" THEN <<>>
       ELSE LET nx == IF e.mv \in Moves[n] THEN Child[n][e.mv] ELSE Bogus
            IN <<[at |-> n, mv |-> e.mv]>> \o Line(t, nx, left - 1)

GiveUp == phase = "start" /\ LoopChecksFlag /\ cancel /\ iter > 0 /\ phase' = "done" /\ UNCHANGED <<tt, iter, stk, res, reports, cancel, cnt, post, panicked>>
Stop == StopAllowed /\ phase # "done" /\ ~cancel /\ cancel' = TRUE /\ UNCHANGED <<tt, iter, stk, res, reports, phase, cnt, post, panicked>>
BestSoFar == IF reports = <<>> THEN 0 - 1000 ELSE reports[Len(reports)].eval
\* an interrupted iteration: report the root entry if it improves on the last completed iteration
JoinInterrupted ==
  /\ phase = "search" /\ \A w \in Active : res[w][1] \in {"ok", "int"} /\ \E u \in Active : res[u][1] = "int"
  /\ LET e == Lookup(tt, Key[Root]) line == Line(tt, Root, iter + 1) IN
       IF e.kind # "none" /\ e.eval > BestSoFar
       THEN /\ reports' = Append(reports, [eval |-> e.eval, line |-> line])
            /\ panicked' = (panicked \/ line = <<>>)
       ELSE UNCHANGED <<reports, panicked>>
  /\ phase' = "done" /\ UNCHANGED <<tt, iter, stk, res, cancel, cnt, post>>
JoinIteration ==
  /\ phase = "search" /\ \A w \in Active : res[w][1] = "ok"
  /\ LET best == CHOOSE v \in {res[w][2] : w \in Active} : \A u \in {res[w][2] : w \in Active} : v >= u
         line == Line(tt, Root, iter + 1)
     IN IF line = <<>>
        THEN \* a root without legal moves: nothing to report, nothing to deepen (the pinned code asserted)
             /\ panicked' = (panicked \/ AssertLine)
             /\ phase' = "done" /\ UNCHANGED <<reports, iter>>
        ELSE /\ reports' = Append(reports, [eval |-> best, line |-> line])
             /\ UNCHANGED panicked
             /\ IF best >= INF \/ iter + 1 >= MaxIter
                THEN phase' = "done" /\ iter' = iter
                ELSE phase' = "start" /\ iter' = iter + 1
  /\ UNCHANGED <<tt, stk, res, cancel, cnt, post>>

Init == /\ tt = [sl \in Slots |-> NoEntry] /\ iter = 0
        /\ stk = [w \in 0..(Workers - 1) |-> <<>>] /\ res = [w \in 0..(Workers - 1) |-> <<"idle">>]
        /\ reports = <<>> /\ phase = "start"
        /\ cancel = FALSE /\ cnt = [w \in 0..(Workers - 1) |-> 0] /\ post = [w \in 0..(Workers - 1) |-> 0] /\ panicked = FALSE
Next == Stop \/ GiveUp \/ JoinInterrupted \/ StartIteration \/ JoinIteration \/ (\E w \in 0..(Workers - 1) : Probe(w) \/ Store(w))
        \/ (phase = "done" /\ UNCHANGED vars)
Fair == WF_vars(StartIteration) /\ WF_vars(JoinIteration) /\ WF_vars(JoinInterrupted) /\ WF_vars(GiveUp)
        /\ \A w \in 0..(Workers - 1) : WF_vars(Probe(w)) /\ WF_vars(Store(w))
Spec == Init /\ [][Next]_vars /\ Fair

\* ---- game-theoretic truth on the abstract graph (depth-bounded solve) ----
RECURSIVE WinIn(_, _)
RECURSIVE LoseIn(_, _)
WinIn(n, d) == d > 0 /\ \E m \in Moves[n] : LoseIn(Child[n][m], d - 1)
LoseIn(n, d) == \/ Status[n] = "mate"
                \/ (d > 0 /\ Moves[n] # {} /\ \A m \in Moves[n] : WinIn(Child[n][m], d - 1))
Horizon == 2 * MaxIter + 2

\* ---- properties ----
LegalLine == \A i \in 1..Len(reports) :
               /\ reports[i].line # <<>>
               /\ \A j \in 1..Len(reports[i].line) : reports[i].line[j].mv \in Moves[reports[i].line[j].at]
MateSound == \A i \in 1..Len(reports) :
               reports[i].eval >= INF =>
                 /\ WinIn(Root, Horizon)
                 /\ reports[i].line # <<>>
                 /\ reports[i].line[1].mv \in Moves[Root]
                 /\ LoseIn(Child[Root][reports[i].line[1].mv], Horizon)
\* forced mate found: fresh table, root won within the iterations' reach, search ran to the end
MateFound == (phase = "done" /\ ~cancel /\ \E d \in 1..MaxIter : WinIn(Root, d)) =>
               (reports # <<>> /\ reports[Len(reports)].eval >= INF)
\* C17: recorded positions are avoided when another mating move exists
HistoryKeys == History
RepetitionAvoided == \A i \in 1..Len(reports) :
               (reports[i].eval >= INF /\ reports[i].line # <<>> /\ reports[i].line[1].mv \in Moves[Root]) =>
                  Key[Child[Root][reports[i].line[1].mv]] \notin HistoryKeys
ReportBeforeEnd == (phase = "done" /\ Moves[Root] # {} /\ ~panicked) => reports # <<>>
NoPanic == ~panicked
TerminalRootQuiet == Moves[Root] = {} => reports = <<>>
\* after the flag is set no worker enters more than K further nodes per iteration it is in, and no new iteration starts
BoundedResponse == \A w \in 0..(Workers - 1) : post[w] <= K + K
StopObeyed == cancel ~> (phase = "done")
Termination == <>(phase = "done")
=============================================================================
