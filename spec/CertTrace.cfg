INIT TraceInit
NEXT TraceNext
POSTCONDITION Accepted
CHECK_DEADLOCK FALSE
