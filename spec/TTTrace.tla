-------------------------------- MODULE TTTrace --------------------------------
(***************************************************************************)
(* Trace validation for C15.  Events come from hooks inside the real       *)
(* table's insert/find/entries (emitted while the sub-table's lock is      *)
(* held) and are ordered per sub-table by the in-lock version counter.     *)
(* The victim of a displacement is not logged and not specified, so the    *)
(* validator keeps, per bucket, the *set of candidate key sets* the        *)
(* abstract map of TT.tla could hold (subset construction); a find prunes  *)
(* it.  An answer no candidate explains is a violation.                    *)
(***************************************************************************)
EXTENDS Naturals, Sequences, FiniteSets, TLC, Json, IOUtils, TLCExt

Rec == ndJsonDeserialize(IOEnv.TRACE)
VARIABLES l, cfg, cand, last, cnt, ver
vars == <<l, cfg, cand, last, cnt, ver>>
Diag(prop, ok, what) == IF ok THEN TRUE ELSE PrintT(<<"DIAG", ToJson([prop |-> prop, l |-> l, what |-> what])>>)
IsEvent(e) == l <= Len(Rec) /\ Rec[l].ev = e /\ l' = l + 1
NoVal == 0 - 1
\* keys are 64-bit: they cross as [hi, lo] (TLC integers are 32-bit); routing arithmetic on the full value
P32(n) == ((65536 % n) * (65536 % n)) % n
KeyMod(k, n) == (((k.hi % n) * P32(n)) + (k.lo % n)) % n
KId(k) == <<k.hi, k.lo>>

TNew ==
  /\ IsEvent("New")
  /\ LET e == Rec[l] IN
       /\ cfg' = [T |-> e.T, B |-> e.B, S |-> e.S]
       /\ cand' = [t \in 0..(e.T - 1) |-> [b \in 0..(e.B - 1) |-> {{}}]]
       /\ cnt' = [t \in 0..(e.T - 1) |-> 0]
       /\ ver' = [t \in 0..(e.T - 1) |-> 0]
       /\ last' = <<>>
LastOf(k) == IF KId(k) \in DOMAIN last THEN last[KId(k)] ELSE NoVal

InsStep(c, kk) == LET k == KId(kk) IN IF k \in c THEN { <<c, 0>> }
                 ELSE IF Cardinality(c) < cfg.S THEN { <<c \cup {k}, 1>> }
                 ELSE { <<(c \ {x}) \cup {k}, 0>> : x \in c }
TInsert ==
  /\ IsEvent("Insert")
  /\ LET e == Rec[l] t == e.t b == KeyMod(e.key, cfg.B)
         outs == UNION { InsStep(c, e.key) : c \in cand[t][b] }
         delta == e.used - cnt[t]
         fit == { o \in outs : o[2] = delta }
     IN /\ Diag("C15", t = KeyMod(e.key, cfg.T), [kind |-> "insert routed to the wrong sub-table", key |-> e.key, table |-> t])
        /\ Diag("TOOL", e.version = ver[t] + 1, [kind |-> "version gap in the recorded linearisation", table |-> t, version |-> e.version])
        /\ Diag("C15", fit # {}, [kind |-> "entry count after insert is not the number of occupied slots", key |-> e.key, reported |-> e.used, before |-> cnt[t]])
        /\ Diag("C15", e.used <= cfg.B * cfg.S, [kind |-> "entry count exceeds capacity", reported |-> e.used])
        /\ cand' = [cand EXCEPT ![t][b] = { o[1] : o \in (IF fit # {} THEN fit ELSE outs) }]
        /\ cnt' = [cnt EXCEPT ![t] = e.used]
        /\ ver' = [ver EXCEPT ![t] = e.version]
        /\ last' = [k \in DOMAIN last \cup {KId(e.key)} |-> IF k = KId(e.key) THEN e.val ELSE last[k]]
  /\ UNCHANGED cfg

TFind ==
  /\ IsEvent("Find")
  /\ LET e == Rec[l] t == e.t b == KeyMod(e.key, cfg.B)
         keep == IF e.hit THEN { c \in cand[t][b] : KId(e.key) \in c } ELSE { c \in cand[t][b] : KId(e.key) \notin c }
     IN /\ Diag("C15", t = KeyMod(e.key, cfg.T), [kind |-> "find routed to the wrong sub-table", key |-> e.key, table |-> t])
        /\ Diag("TOOL", e.version = ver[t], [kind |-> "find at an unknown version", table |-> t, version |-> e.version])
        /\ (IF e.hit
            THEN /\ Diag("C15", e.val = LastOf(e.key), [kind |-> "find returned an entry that is not the most recent one stored under this key", key |-> e.key, got |-> e.val, latest |-> LastOf(e.key)])
                 /\ Diag("C15", e.whole, [kind |-> "find returned an entry mixed from different writes", key |-> e.key])
                 /\ Diag("C15", keep # {}, [kind |-> "find returned an entry the bounded map cannot still hold", key |-> e.key])
            ELSE Diag("C15", keep # {}, [kind |-> "entry lost without being displaced from a full bucket", key |-> e.key, latest |-> LastOf(e.key)]))
        /\ cand' = [cand EXCEPT ![t][b] = IF keep # {} THEN keep ELSE @]
  /\ UNCHANGED <<cfg, last, cnt, ver>>

TUsed ==
  /\ IsEvent("Used")
  /\ LET e == Rec[l] IN
       /\ Diag("C15", e.used = cnt[e.t], [kind |-> "entries() of a sub-table differs from its occupied slots", table |-> e.t, reported |-> e.used, occupied |-> cnt[e.t]])
       /\ Diag("C15", e.max = cfg.B * cfg.S /\ e.used <= e.max, [kind |-> "capacity", table |-> e.t, max |-> e.max])
  /\ UNCHANGED <<cfg, cand, last, cnt, ver>>

\* single-threaded only: the sum returned by entries()/max_entries()
TTotal ==
  /\ IsEvent("Total")
  /\ LET e == Rec[l]
         RECURSIVE Sum(_)
         Sum(t) == IF t = cfg.T THEN 0 ELSE cnt[t] + Sum(t + 1)
     IN /\ Diag("C15", e.total = Sum(0), [kind |-> "entries() differs from the number of occupied slots", reported |-> e.total, occupied |-> Sum(0)])
        /\ Diag("C15", e.max = cfg.T * cfg.B * cfg.S /\ e.total <= e.max, [kind |-> "capacity", max |-> e.max])
  /\ UNCHANGED <<cfg, cand, last, cnt, ver>>

\* Read-your-writes on keys only one thread uses, in buckets that cannot fill (Retained + Faithful of TT.tla):
\* after the thread's own insert has returned, its later finds of that key must return exactly that value.
RECURSIVE OwnOk(_, _, _)
OwnOk(calls, i, mine) ==
  IF i > Len(calls) THEN 0
  ELSE LET c == calls[i] k == KId(c.key) IN
       IF c.op = "ins" THEN OwnOk(calls, i + 1, [x \in DOMAIN mine \cup {k} |-> IF x = k THEN c.val ELSE mine[x]])
       ELSE IF (k \in DOMAIN mine /\ c.hit /\ c.val = mine[k]) \/ (k \notin DOMAIN mine /\ ~c.hit) THEN OwnOk(calls, i + 1, mine)
       ELSE i
TOwn ==
  /\ IsEvent("Own")
  /\ LET e == Rec[l] bad == OwnOk(e.calls, 1, <<>>) IN
       Diag("C15", bad = 0, [kind |-> "a thread's own completed store is not what its later lookup returns (bucket never full)", thread |-> e.th, call |-> bad,
                             got |-> (IF bad = 0 THEN e.calls[1] ELSE e.calls[bad])])
  /\ UNCHANGED <<cfg, cand, last, cnt, ver>>
TOwnTotal ==
  /\ IsEvent("OwnTotal")
  /\ Diag("C15", Rec[l].total <= Rec[l].keys /\ Rec[l].total <= Rec[l].max, [kind |-> "more entries than distinct keys stored", total |-> Rec[l].total, keys |-> Rec[l].keys])
  /\ UNCHANGED <<cfg, cand, last, cnt, ver>>

TraceInit == l = 1 /\ cfg = [T |-> 1, B |-> 1, S |-> 1] /\ cand = <<>> /\ last = <<>> /\ cnt = <<>> /\ ver = <<>>
TraceNext == TOwn \/ TOwnTotal \/ TNew \/ TInsert \/ TFind \/ TUsed \/ TTotal
Accepted == IF TLCGet("stats").diameter - 1 = Len(Rec) THEN PrintT(<<"ACCEPTED", Len(Rec)>>)
            ELSE PrintT(<<"STUCK", TLCGet("stats").diameter, Len(Rec)>>)
=============================================================================
