------------------------------- MODULE TextGen -------------------------------
(***************************************************************************)
(* Specification -> implementation generators for the text properties.     *)
(*  MODE = "san":  for every position of a recorded play trace (or of the  *)
(*     ambiguity family) all admissible SAN spellings of every legal move, *)
(*     its LAN text, and full-square spellings of pseudo-legal-but-illegal *)
(*     moves as negative cases.                                            *)
(*  MODE = "fen":  canonical FEN strings of legal positions built from a   *)
(*     set of boards x all admissible castling-right sets x en-passant     *)
(*     targets x counters (incl. values beyond 32 bits, as text).          *)
(*  MODE = "hash": for every trace position its single-component variants  *)
(*     with the relation the hash must satisfy (same / diff / free).       *)
(***************************************************************************)
EXTENDS ChessText, Json, IOUtils, TLCExt

Mode == IOEnv.MODE
Rec == IF "TRACE" \in DOMAIN IOEnv THEN ndJsonDeserialize(IOEnv.TRACE) ELSE <<>>
Stride == atoi(IOEnv.STRIDE)
Phase == atoi(IOEnv.PHASE)
ToSetOf(seq) == { seq[i] : i \in 1..Len(seq) }
Norm(p) == [board |-> p.board, stm |-> p.stm, castle |-> ToSetOf(p.castle), ep |-> p.ep, half |-> p.half, full |-> p.full]
MvStr(m) == SqName(m.from) \o SqName(m.to) \o m.piece \o m.capture \o m.promo \o (IF m.ep THEN "e" ELSE "-") \o m.castle \o (IF m.dbl THEN "d" ELSE "-")
EmptyBoard == [sq \in Squares |-> Empty]
Put(b, sq, pc) == [b EXCEPT ![sq] = pc]

VARIABLE l
tvars == <<pos, l>>

\* ---- san ---------------------------------------------------------------
EmitSan(p) ==
  LET ms == Legal(p) IN
  PrintT(<<"GEN", ToJson([fen |-> ToFen(p),
       cases |-> SetToSeq({ [m |-> MvStr(m), lan |-> Lan(m), san |-> SetToSeq(SanSpellings(p, ms, m))] : m \in ms }),
       neg |-> SetToSeq(Negatives(p, ms))])>>)

\* ambiguity family: three like pieces (+ optional enemy piece to capture), kings tucked away
AmbKinds == <<"N", "R", "Q", "B">>
AmbPos(p) == \E ki \in 1..4, x \in Squares, y \in Squares :
               /\ x < y /\ ((x * 31 + y * 7 + ki) % Stride) = Phase
               /\ \E z \in Squares, c \in {"w", "b"}, t \in {0} \cup { s \in Squares : s % 5 = 2 } :
                    LET own == Mk(c, AmbKinds[ki])
                        b1 == Put(Put(Put(Put(Put(EmptyBoard, 8, "K"), 57, "k"), x, own), y, own), z, own)
                        b2 == IF t = 0 THEN b1 ELSE Put(b1, t, Mk(Other(c), "P"))
                    IN /\ y < z /\ Cardinality({8, 57, x, y, z, t}) = 6
                       /\ (t = 0 \/ RankOf(t) \notin {0, 7})
                       /\ p = [board |-> b2, stm |-> c, castle |-> {}, ep |-> 0, half |-> 0, full |-> 1]

\* ---- fen ---------------------------------------------------------------
Kiwi == << "R",".",".",".","K",".",".","R", "P","P","P","B","B","P","P","P", ".",".","N",".",".","Q",".","p", ".","p",".",".","P",".",".",".",
           ".",".",".","P","N",".",".",".", "b","n",".",".","p","n","p",".", "p",".","p","p","q","p","b",".", "r",".",".",".","k",".",".","r" >>
EpRich == << "R",".",".",".","K",".",".","R", ".",".",".",".",".",".",".",".", ".",".",".",".",".",".",".",".", "p","P","p",".",".","P","p",".",
             ".","p","P",".","p","P",".","P", ".",".",".",".",".",".",".",".", ".",".",".",".",".",".",".",".", "r",".",".",".","k",".",".","r" >>
Asym == << ".",".",".",".","K",".",".","R", ".","P",".",".",".",".","P",".", ".",".",".","B",".",".",".",".", ".",".",".",".",".",".",".",".",
           ".",".",".","n",".",".",".",".", ".",".","p",".",".",".",".","q", ".",".",".",".",".","p",".",".", "r",".",".",".","k",".",".","." >>
Sparse == << ".",".",".",".",".",".","K",".", ".",".",".",".",".",".",".",".", ".",".",".",".",".",".",".",".", ".",".",".",".",".",".",".",".",
             ".",".",".",".",".",".",".",".", ".",".",".",".",".",".",".",".", ".",".",".",".",".",".",".",".", ".","k",".",".",".",".",".","." >>
FenBoards == {StartBoard, Kiwi, EpRich, Asym, Sparse}
HomeRights(b) == { r \in {"K", "Q", "k", "q"} :
                     CASE r = "K" -> b[5] = "K" /\ b[8] = "R" [] r = "Q" -> b[5] = "K" /\ b[1] = "R"
                       [] r = "k" -> b[61] = "k" /\ b[64] = "r" [] OTHER -> b[61] = "k" /\ b[57] = "r" }
Counters == << <<"0", "1">>, <<"1", "1">>, <<"49", "30">>, <<"99", "120">>, <<"100", "32767">>, <<"32767", "2147483647">>,
               <<"2147483647", "1000000000000">>, <<"0", "4294967296">>, <<"7", "18446744073709551615">> >>
FenCases ==
  { [b |-> b, stm |-> stm, castle |-> cs, ep |-> ep] :
      b \in FenBoards, stm \in {"w", "b"}, cs \in SUBSET {"K", "Q", "k", "q"}, ep \in {0} \cup { s \in Squares : RankOf(s) \in {2, 5} } }
FenOk(c) == /\ c.castle \subseteq HomeRights(c.b)
            /\ LegalPosition([board |-> c.b, stm |-> c.stm, castle |-> c.castle, ep |-> c.ep, half |-> 0, full |-> 1])
EmitFen(c) ==
  \A i \in 1..Len(Counters) :
    LET p == [board |-> c.b, stm |-> c.stm, castle |-> c.castle, ep |-> c.ep, half |-> 0, full |-> 1] IN
    PrintT(<<"GEN", ToJson([text |-> FenWith(p, Counters[i][1], Counters[i][2]), board |-> c.b, stm |-> c.stm,
                            castle |-> CastleStr(c.castle), ep |-> c.ep, half |-> Counters[i][1], full |-> Counters[i][2]])>>)

\* ---- hash variants ------------------------------------------------------
\* rel: "same" (must hash equal), "diff" (must hash differently), "free" (unconstrained)
Variants(p) ==
  LET \* every other set of castling rights the placement admits (single rights, both rights of a colour, all, swaps)
      rightsDrop == { [q |-> [p EXCEPT !.castle = R], rel |-> "diff", why |-> IF R \subseteq p.castle THEN "castling right removed" ELSE "castling right added"] :
                        R \in (SUBSET HomeRights(p.board)) \ {p.castle} }
      rightsAdd == {}
      epClear == IF p.ep = 0 THEN {} ELSE { [q |-> [p EXCEPT !.ep = 0], rel |-> IF EpLegal(p) THEN "diff" ELSE "free", why |-> "en-passant target cleared"] }
      epSet == IF p.ep # 0 THEN {} ELSE
               { [q |-> [p EXCEPT !.ep = s], rel |-> IF EpLegal([p EXCEPT !.ep = s]) THEN "diff" ELSE "free", why |-> "en-passant target set"] :
                   s \in { t \in Squares : LegalPosition([p EXCEPT !.ep = t]) /\ t # 0 /\ RankOf(t) = (IF p.stm = "w" THEN 5 ELSE 2) } }
      \* two components at once: another set of rights together with the en-passant state (keys of different tables must not cancel)
      both == IF p.ep = 0 THEN {} ELSE
              { [q |-> [p EXCEPT !.castle = R, !.ep = 0], rel |-> IF EpLegal(p) \/ R # p.castle THEN "diff" ELSE "free", why |-> "castling rights and en-passant target changed together"] :
                  R \in (SUBSET HomeRights(p.board)) \ {p.castle} }
      flip == { [q |-> [p EXCEPT !.stm = Other(p.stm), !.ep = 0], rel |-> "diff", why |-> "side to move flipped"] }
      clocks == { [q |-> [p EXCEPT !.half = p.half + 7, !.full = p.full + 11], rel |-> "same", why |-> "clocks changed"] }
                \cup { [q |-> [p EXCEPT !.half = h, !.full = (IF p.full > h \div 2 + 1 THEN p.full ELSE h \div 2 + 1)], rel |-> "same", why |-> "clocks changed"] :
                         h \in (IF p.ep # 0 THEN {} ELSE {0, 49, 79, 80, 84, 99, 100, 150}) \ {p.half} }
      pieceSq == { s \in Squares : p.board[s] \notin {Empty, "K", "k"} /\ s % 3 = 0 }
      moved == UNION { { [q |-> [p EXCEPT !.board = Put(Put(p.board, s, Empty), t, p.board[s]), !.castle = {}, !.ep = 0], rel |-> "diff", why |-> "piece moved"] :
                           t \in { u \in Squares : p.board[u] = Empty /\ u % 7 = 1 /\ (KindOf(p.board[s]) # "P" \/ RankOf(u) \notin {0, 7}) } } : s \in pieceSq }
      swapped == { [q |-> [p EXCEPT !.board = Put(p.board, s, IF KindOf(p.board[s]) = "N" THEN Mk(ColorOf(p.board[s]), "B") ELSE Mk(ColorOf(p.board[s]), "N")), !.castle = {}, !.ep = 0],
                    rel |-> "diff", why |-> "piece kind replaced"] : s \in { u \in pieceSq : RankOf(u) \notin {0, 7} } }
      \* ownership: one piece changes colour, two pieces change colour, two different pieces trade squares
      FlipPc(pc) == Mk(Other(ColorOf(pc)), KindOf(pc))
      evenSq == { s \in Squares : p.board[s] \notin {Empty, "K", "k"} /\ s % 2 = 0 }
      Bare(b) == [p EXCEPT !.board = b, !.castle = {}, !.ep = 0]
      recolour1 == { [q |-> Bare(Put(p.board, s, FlipPc(p.board[s]))), rel |-> "diff", why |-> "piece recoloured"] : s \in evenSq }
      recolour2 == { [q |-> Bare(Put(Put(p.board, st[1], FlipPc(p.board[st[1]])), st[2], FlipPc(p.board[st[2]]))), rel |-> "diff", why |-> "two pieces recoloured"] :
                       st \in { x \in evenSq \X evenSq : x[1] < x[2] } }
      exchanged == { [q |-> Bare(Put(Put(p.board, st[1], p.board[st[2]]), st[2], p.board[st[1]])), rel |-> "diff", why |-> "two pieces exchanged"] :
                       st \in { x \in evenSq \X evenSq : x[1] < x[2] /\ p.board[x[1]] # p.board[x[2]] } }
  IN { v \in rightsDrop \cup rightsAdd \cup both \cup epClear \cup epSet \cup flip \cup clocks \cup moved \cup swapped \cup recolour1 \cup recolour2 \cup exchanged : LegalPosition(v.q) }
EmitHash(p) ==
  \A v \in Variants(p) :
    \* a variant that removes rights/ep from p is compared with p itself; p for 'moved' has rights cleared on both sides
    LET base == IF v.why \in {"piece moved", "piece kind replaced", "piece recoloured", "two pieces recoloured", "two pieces exchanged"} THEN [p EXCEPT !.castle = {}, !.ep = 0] ELSE p IN
    PrintT(<<"GEN", ToJson([p |-> ToFen(base), q |-> ToFen(v.q), rel |-> v.rel, why |-> v.why])>>)

\* ---- mutation model for malformed text (C14): operates on code-point sequences ----------------
\* special code points: digits, separators, letters that mean something, multi-byte characters
Specials == (32..126) \cup {0, 9, 10, 127, 233, 9818, 1632, 8195, 65533}     \* every printable ASCII character, controls, multi-byte characters
Flood(c, n) == [i \in 1..n |-> c]
DropAt(s, i) == SubSeq(s, 1, i - 1) \o SubSeq(s, i + 1, Len(s))
DupAt(s, i) == SubSeq(s, 1, i) \o SubSeq(s, i, Len(s))
SetAt(s, i, c) == [s EXCEPT ![i] = c]
InsAt(s, i, t) == SubSeq(s, 1, i - 1) \o t \o SubSeq(s, i, Len(s))
SwapAt(s, i) == IF i < Len(s) THEN [s EXCEPT ![i] = s[i + 1], ![i + 1] = s[i]] ELSE s
\* fields of a space-separated text
RECURSIVE Fields(_)
Fields(s) == IF s = <<>> THEN << <<>> >>
             ELSE LET sp == { i \in 1..Len(s) : s[i] = 32 } IN
                  IF sp = {} THEN <<s>> ELSE LET i == CHOOSE x \in sp : \A y \in sp : x <= y IN <<SubSeq(s, 1, i - 1)>> \o Fields(SubSeq(s, i + 1, Len(s)))
RECURSIVE Join(_)
Join(fs) == IF fs = <<>> THEN <<>> ELSE IF Len(fs) = 1 THEN fs[1] ELSE fs[1] \o <<32>> \o Join(Tail(fs))
FieldMutations(s) ==
  LET fs == Fields(s) n == Len(fs) IN
  { Join(SubSeq(fs, 1, i - 1) \o SubSeq(fs, i + 1, n)) : i \in 1..n }                         \* drop a field
  \cup { Join(SubSeq(fs, 1, i) \o SubSeq(fs, i, n)) : i \in 1..n }                              \* duplicate a field
  \cup { Join([fs EXCEPT ![i] = fs[j], ![j] = fs[i]]) : i \in 1..n, j \in 1..n }                 \* swap two fields
  \cup { Join([fs EXCEPT ![i] = t]) : i \in 1..n, t \in { Flood(57, 25), Flood(56, 32), Flood(49, 70), <<>>, <<45>>, <<45, 49>>,
                                                           <<49, 56, 52, 52, 54, 55, 52, 52, 48, 55, 51, 55, 48, 57, 53, 53, 49, 54, 49, 54>> } }   \* 2^64, floods, empty
SingleMutations(s) ==
  { DropAt(s, i) : i \in 1..Len(s) } \cup { DupAt(s, i) : i \in 1..Len(s) } \cup { SwapAt(s, i) : i \in 1..Len(s) }
  \cup { SetAt(s, i, c) : i \in 1..Len(s), c \in Specials } \cup { InsAt(s, i, <<c>>) : i \in 1..(Len(s) + 1), c \in {56, 47, 32, 233, 9818} }
  \cup { SubSeq(s, 1, i) : i \in 0..Len(s) } \cup { InsAt(s, i, Flood(56, 32)) : i \in {1, Len(s) + 1} \cup { j \in 1..Len(s) : s[j] = 47 } }
EmitMut(e) ==
  LET base == e.cps
      ms == SingleMutations(base) \cup FieldMutations(base)
      \* a strided sample of double mutations
      dbl == UNION { { DropAt(m, (Len(m) % 7) + 1), SetAt(m, IF Len(m) = 0 THEN 1 ELSE (Len(m) % 5) + 1, 9818) } : m \in { x \in ms : Len(x) > 8 /\ (Len(x) + x[3]) % Stride = Phase } }
  IN \A m \in ms \cup dbl \cup {base} : PrintT(<<"GEN", ToJson([kind |-> e.kind, cps |-> m])>>)

\* ---- driver ---------------------------------------------------------------
Init == /\ l = 1
        /\ CASE Mode = "amb" -> AmbPos(pos) /\ LegalPosition(pos)
             [] OTHER -> pos = StartPos
FenSeq == SetToSeq({ c \in FenCases : FenOk(c) })
Next ==
  CASE Mode = "san" -> /\ l <= Len(Rec) /\ l' = l + 1 /\ UNCHANGED pos
                       /\ (IF Rec[l].ev = "Move" /\ (l % Stride) = Phase THEN EmitSan(Norm(Rec[l].next)) ELSE TRUE)
    [] Mode = "hash" -> /\ l <= Len(Rec) /\ l' = l + 1 /\ UNCHANGED pos
                        /\ (IF Rec[l].ev = "Move" /\ (l % Stride) = Phase /\ LegalPosition(Norm(Rec[l].next)) THEN EmitHash(Norm(Rec[l].next)) ELSE TRUE)
                        /\ (IF Rec[l].ev = "Reset" /\ (l % Stride) = Phase /\ LegalPosition(Norm(Rec[l].pos)) THEN EmitHash(Norm(Rec[l].pos)) ELSE TRUE)
    [] Mode = "fen" -> /\ l <= Len(FenSeq) /\ l' = l + 1 /\ UNCHANGED pos
                       /\ (IF (l % Stride) = Phase THEN EmitFen(FenSeq[l]) ELSE TRUE)
    [] Mode = "mutate" -> /\ l <= Len(Rec) /\ l' = l + 1 /\ UNCHANGED pos
                          /\ (IF Rec[l].ev = "Base" THEN EmitMut(Rec[l]) ELSE TRUE)
    [] Mode = "amb" -> /\ l = 1 /\ l' = 2 /\ UNCHANGED pos /\ EmitSan(pos)
=============================================================================
