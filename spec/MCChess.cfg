CONSTANT MaxPly = 2
INIT Init
NEXT Next
INVARIANT DomainClosed
INVARIANT AttackRedundancy
INVARIANT MirrorInvolution
INVARIANT MirrorCommutes
PROPERTY RightsOnlyShrink
PROPERTY FullmoveRule
PROPERTY SideAlternates
CHECK_DEADLOCK FALSE
