CONSTANTS
 GAME = "mated"
 Collide = FALSE
 PriorTables = FALSE
 Nodes <- GNodes
 Root = "R"
 MoveIds <- GMoveIds
 Moves <- GMoves
 Child <- GChild
 Static <- GStatic
 Status <- GStatus
 Key <- GKey
 History = {}
 Workers = 2
 MaxIter = 3
 MinPar = 1
 Orders <- GOrdersOne
 K = 4
 LoopChecksFlag = TRUE
 AssertLine = FALSE
 CapOrder <- GCap
 SlotOf <- GSlot
 TagCheck = TRUE
 TinyTable = FALSE
 StopAllowed = TRUE
SPECIFICATION MCSpec
CHECK_DEADLOCK FALSE
INVARIANT NoPanic
INVARIANT TerminalRootQuiet
PROPERTY Termination
