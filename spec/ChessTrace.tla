------------------------------ MODULE ChessTrace ------------------------------
(***************************************************************************)
(* Trace validation of the rules layer: events recorded from the real code *)
(* (random play, queries, text round trips, hashes, evaluations) are       *)
(* replayed against Chess.tla.  The module is *diagnostic*: a mismatch     *)
(* prints one DIAG line naming the property and the event, and validation  *)
(* resynchronises on the logged state, so one defect does not hide the     *)
(* rest of the trace.  Only what a property states is judged.              *)
(***************************************************************************)
EXTENDS ChessText, Json, IOUtils, TLCExt

Rec == ndJsonDeserialize(IOEnv.TRACE)
VARIABLES l, dom, consts
tvars == <<pos, l, dom, consts>>

ToSetOf(seq) == { seq[i] : i \in 1..Len(seq) }
Norm(p) == [board |-> p.board, stm |-> p.stm, castle |-> ToSetOf(p.castle), ep |-> p.ep, half |-> p.half, full |-> p.full]
Diag(prop, ok, what) == IF ok THEN TRUE ELSE PrintT(<<"DIAG", ToJson([prop |-> prop, l |-> l, what |-> what])>>)
Skip(why) == PrintT(<<"SKIP", ToJson([l |-> l, why |-> why])>>)

IsEvent(e) == l <= Len(Rec) /\ Rec[l].ev = e /\ l' = l + 1

TReset ==
  /\ IsEvent("Reset")
  /\ pos' = Norm(Rec[l].pos)
  /\ dom' = LegalPosition(Norm(Rec[l].pos))
  /\ (IF LegalPosition(Norm(Rec[l].pos)) THEN TRUE ELSE Skip(ToFen(Norm(Rec[l].pos))))
  /\ UNCHANGED consts

TMove ==
  /\ IsEvent("Move")
  /\ LET e == Rec[l] ms == Legal(pos) lm == ToSetOf(e.moves) nxt == Norm(e.next) IN
       /\ (IF ~dom THEN TRUE ELSE
            ( /\ Diag("C01", Len(e.moves) = Cardinality(lm), [kind |-> "duplicate move in list"])
              /\ Diag("C01", lm = ms, [kind |-> "move set differs", missing |-> ms \ lm, extra |-> lm \ ms, pos |-> ToFen(pos)])
              /\ Diag("C10", e.check = InCheck(pos.board, pos.stm), [kind |-> "is_check", pos |-> ToFen(pos)])
              /\ (IF e.mv \notin ms THEN TRUE ELSE Diag("C02", Apply(pos, e.mv) = nxt,
                     [kind |-> "successor differs", pos |-> ToFen(pos), mv |-> Lan(e.mv), expected |-> ToFen(Apply(pos, e.mv)), got |-> ToFen(nxt), gotcastle |-> nxt.castle]))))
       /\ pos' = nxt
       /\ dom' = IF dom /\ e.mv \in ms /\ Apply(pos, e.mv) = nxt THEN TRUE ELSE LegalPosition(nxt)
  /\ UNCHANGED consts

TTerminal ==
  /\ IsEvent("Terminal")
  /\ LET e == Rec[l] IN
       IF ~dom THEN TRUE ELSE ( /\ Diag("C01", Legal(pos) = {} /\ Len(e.moves) = 0, [kind |-> "terminal claimed", pos |-> ToFen(pos)])
                 /\ Diag("C10", e.check = InCheck(pos.board, pos.stm), [kind |-> "is_check", pos |-> ToFen(pos)]) )
  /\ UNCHANGED <<pos, dom, consts>>

ResolveIn(ms, f, t, pr) == { m \in ms : m.from = f /\ m.to = t /\ (pr # "." => m.promo = pr) }
TripleInDom(f, t, pr) == pr = "." \/ (pos.board[f] = Mk(pos.stm, "P") /\ RankOf(t) = LastRank(pos.stm))
JudgeResolved(ms, o) ==
  IF TripleInDom(o.from, o.to, o.promo) /\ Cardinality(ResolveIn(ms, o.from, o.to, o.promo)) = 1
  THEN Diag("C02", Apply(pos, CHOOSE m \in ResolveIn(ms, o.from, o.to, o.promo) : TRUE) = Norm(o.next),
            [kind |-> "resolved successor", pos |-> ToFen(pos), from |-> o.from, to |-> o.to])
  ELSE TRUE

\* every coordinate triple tried through the resolver on the current position
TPerformAll ==
  /\ IsEvent("PerformAll")
  /\ LET e == Rec[l]
         ms == Legal(pos)
         InDom(f, t, pr) == pr = "." \/ (pos.board[f] = Mk(pos.stm, "P") /\ RankOf(t) = LastRank(pos.stm))
         Res(f, t, pr) == { m \in ms : m.from = f /\ m.to = t /\ (pr # "." => m.promo = pr) }
         cands == { <<m.from, m.to, ".">> : m \in ms } \cup { <<m.from, m.to, m.promo>> : m \in { x \in ms : x.promo # "." } }
         expOk == { c \in cands : Cardinality(Res(c[1], c[2], c[3])) = 1 }
         expAmb == { c \in cands : Cardinality(Res(c[1], c[2], c[3])) > 1 }
         gotOk == { <<e.ok[i].from, e.ok[i].to, e.ok[i].promo>> : i \in { j \in 1..Len(e.ok) : InDom(e.ok[j].from, e.ok[j].to, e.ok[j].promo) } }
         gotAmb == { c \in ToSetOf(e.ambiguous) : InDom(c[1], c[2], c[3]) }
     IN IF ~dom THEN TRUE ELSE
        ( /\ Diag("C02", gotOk = expOk, [kind |-> "resolver accepts", pos |-> ToFen(pos), missing |-> expOk \ gotOk, extra |-> gotOk \ expOk])
          /\ Diag("C02", gotAmb = expAmb, [kind |-> "resolver ambiguous", pos |-> ToFen(pos), missing |-> expAmb \ gotAmb, extra |-> gotAmb \ expAmb])
          /\ Diag("C02", Len(e.other) = 0, [kind |-> "resolver error or panic", pos |-> ToFen(pos), other |-> e.other])
          /\ \A i \in 1..Len(e.ok) : JudgeResolved(ms, e.ok[i]) )
  /\ UNCHANGED <<pos, dom, consts>>

\* attack-set / check queries on one object and its clones, in the order they were asked
PawnAttackSet(b, c) == (UNION { PawnAtt[c][sq] : sq \in { s \in Squares : b[s] = Mk(c, "P") } }) \ Own(b, c)
CheckAny(b, c) == \E sq \in Squares : b[sq] = Mk(c, "K") /\ sq \in AttackSet(b, Other(c))
TAttackOps ==
  /\ IsEvent("AttackOps")
  /\ LET e == Rec[l] b == e.board IN
       \A i \in 1..Len(e.ops) :
         LET o == e.ops[i] IN
         CASE o.op = "all" -> Diag("C10", ToSetOf(o.ans) = AttackSet(b, o.color), [kind |-> "attack set", op |-> i, color |-> o.color, board |-> Placement(b), got |-> o.ans])
           [] o.op = "pawn" -> Diag("C10", ToSetOf(o.ans) = PawnAttackSet(b, o.color), [kind |-> "pawn attack set", op |-> i, color |-> o.color, board |-> Placement(b), got |-> o.ans])
           [] o.op = "check" -> Diag("C10", (o.ans[1] = 1) = CheckAny(b, o.color), [kind |-> "check", op |-> i, color |-> o.color, board |-> Placement(b)])
           [] OTHER -> TRUE
  /\ UNCHANGED <<pos, dom, consts>>

\* pairs of positions met by the driver whose hashes or identities coincide
THashPair ==
  /\ IsEvent("HashPair")
  /\ LET e == Rec[l] p == Norm(e.p) q == Norm(e.q) IN
       IF ~(LegalPosition(p) /\ LegalPosition(q)) THEN TRUE ELSE
         ( /\ (IF ~SameForHash(p, q) THEN TRUE ELSE Diag("C08", e.hp = e.hq, [kind |-> "same position, different hash", p |-> ToFen(p), q |-> ToFen(q)]))
           /\ (IF PosKey(p) = PosKey(q) THEN TRUE ELSE Diag("C08", \A i \in 1..Len(e.hp) : e.hp[i] # e.hq[i], [kind |-> "different positions, same hash", p |-> ToFen(p), q |-> ToFen(q)])) )
  /\ UNCHANGED <<pos, dom, consts>>

TFen ==
  /\ IsEvent("Fen")
  /\ LET e == Rec[l] p == Norm(e.pos) IN
       IF ~LegalPosition(p) THEN TRUE ELSE
         ( /\ Diag("C11", Concat(e.text) = ToFen(p), [kind |-> "written FEN", expected |-> ToFen(p), got |-> Concat(e.text)])
           /\ Diag("C11", "panic" \notin DOMAIN e /\ e.parsed, [kind |-> "own FEN not read back", fen |-> ToFen(p)])
           /\ (IF ("panic" \in DOMAIN e \/ ~e.parsed) THEN TRUE ELSE
                ( /\ Diag("C11", Norm(e.reparsed) = p, [kind |-> "reparsed position differs", fen |-> ToFen(p), got |-> ToFen(Norm(e.reparsed))])
                  /\ Diag("C11", e.text2 = e.text, [kind |-> "second writing differs", fen |-> ToFen(p), got |-> Concat(e.text2)])
                  /\ Diag("C11", e.same_moves /\ e.same_hash /\ e.same_eval, [kind |-> "moves/hash/eval differ after round trip", fen |-> ToFen(p),
                                   moves |-> e.same_moves, hash |-> e.same_hash, eval |-> e.same_eval]))) )
  /\ UNCHANGED <<pos, dom, consts>>

\* observed constants of the evaluation scale: mate[k+1] = mate score at ply k, threshold
TEvalConsts ==
  /\ IsEvent("EvalConsts")
  /\ LET e == Rec[l] IN
       /\ Diag("C05", \A k \in 1..Len(e.mate) : e.mate[k] >= e.threshold, [kind |-> "mate score below terminal threshold"])
       /\ Diag("C05", \A k \in 1..(Len(e.mate) - 1) : e.mate[k + 1] <= e.mate[k], [kind |-> "mate score increases with ply"])
       /\ Diag("C05", \A k \in 1..Len(e.mate) : e.mate_terminal[k] /\ e.negmate_terminal[k], [kind |-> "mate score not terminal"])
       /\ consts' = [mate |-> e.mate, threshold |-> e.threshold]
  /\ UNCHANGED <<pos, dom>>

MateAt(k) == IF k + 1 <= Len(consts.mate) THEN consts.mate[k + 1] ELSE consts.mate[Len(consts.mate)]
ScoreOf(scores, c, k) == LET S == { i \in 1..Len(scores) : scores[i].persp = c /\ scores[i].ply = k } IN scores[CHOOSE i \in S : TRUE].score
TEval ==
  /\ IsEvent("Eval")
  /\ LET e == Rec[l] p == Norm(e.pos) mp == Norm(e.mirror) IN
       IF ~LegalPosition(p) THEN TRUE ELSE
       LET st == Status(p)
           nopanic == \A i \in 1..Len(e.scores) : "panic" \notin DOMAIN e.scores[i]
           mnopanic == \A i \in 1..Len(e.mscores) : "panic" \notin DOMAIN e.mscores[i]
       IN
         /\ Diag("C05", nopanic /\ mnopanic, [kind |-> "evaluator panicked", pos |-> ToFen(p)])
         /\ (IF ~(nopanic /\ mnopanic) THEN TRUE ELSE
              /\ (IF Imbalance(p.board) >= 900 THEN TRUE ELSE
                    \A i \in 1..Len(e.scores) :
                      LET s == e.scores[i] IN
                      CASE st = "mate" -> Diag("C05", s.score = (IF s.persp = p.stm THEN 0 - MateAt(s.ply) ELSE MateAt(s.ply)),
                                                 [kind |-> "checkmate not scored as mate", pos |-> ToFen(p), persp |-> s.persp, ply |-> s.ply, score |-> s.score])
                        [] st = "stalemate" -> Diag("C05", s.score = 0, [kind |-> "stalemate not scored zero", pos |-> ToFen(p), persp |-> s.persp, score |-> s.score])
                        [] OTHER -> Diag("C05", ~s.terminal /\ s.score < consts.threshold /\ s.score > 0 - consts.threshold,
                                                 [kind |-> "position with legal moves scored terminal", pos |-> ToFen(p), persp |-> s.persp, ply |-> s.ply, score |-> s.score]))
              /\ Diag("C13", mp = Mirror(p), [kind |-> "HARNESS mirror differs from Mirror(pos)", pos |-> ToFen(p)])
              /\ \A i \in 1..Len(e.scores) :
                   LET s == e.scores[i] IN
                   /\ Diag("C13", s.score = 0 - ScoreOf(e.scores, Other(s.persp), s.ply),
                             [kind |-> "perspectives not negations", pos |-> ToFen(p), ply |-> s.ply, persp |-> s.persp, score |-> s.score, other |-> ScoreOf(e.scores, Other(s.persp), s.ply)])
                   /\ Diag("C13", s.score = ScoreOf(e.mscores, Other(s.persp), s.ply),
                             [kind |-> "mirror image scored differently", pos |-> ToFen(p), mirror |-> ToFen(mp), ply |-> s.ply, persp |-> s.persp, score |-> s.score, mscore |-> ScoreOf(e.mscores, Other(s.persp), s.ply)]))
  /\ UNCHANGED <<pos, dom, consts>>

\* one inner node of the implementation's perft walk: children = Legal, count = sum
RECURSIVE SumSeq(_, _)
SumSeq(s, i) == IF i > Len(s) THEN 0 ELSE s[i].count + SumSeq(s, i + 1)
TPerftNode ==
  /\ IsEvent("PerftNode")
  /\ LET e == Rec[l] p == Norm(e.pos) ms == Legal(p)
         lm == { e.children[i].mv : i \in 1..Len(e.children) } IN
       IF ~LegalPosition(p) THEN TRUE ELSE
         /\ Diag("C01", Len(e.children) = Cardinality(lm) /\ lm = ms, [kind |-> "perft children differ from legal moves", pos |-> ToFen(p), missing |-> ms \ lm, extra |-> lm \ ms])
         /\ Diag("C01", e.count = SumSeq(e.children, 1), [kind |-> "perft count is not the sum of its children", pos |-> ToFen(p)])
         /\ \A i \in 1..Len(e.children) :
              LET c == e.children[i] IN
              /\ (IF c.mv \notin ms THEN TRUE ELSE Diag("C02", Apply(p, c.mv) = Norm(c.next), [kind |-> "perft child position", pos |-> ToFen(p), mv |-> Lan(c.mv)]))
              /\ Diag("C01", c.count = c.sub, [kind |-> "perft count of a child differs from the perft of that child", pos |-> ToFen(p), mv |-> Lan(c.mv), count |-> c.count, sub |-> c.sub])
              /\ (IF (e.depth # 2 \/ c.mv \notin ms) THEN TRUE ELSE Diag("C01", c.count = Cardinality(Legal(Apply(p, c.mv))), [kind |-> "perft leaf count", pos |-> ToFen(p), mv |-> Lan(c.mv)]))
  /\ UNCHANGED <<pos, dom, consts>>

\* parser outcomes on (malformed) text: a result or an error, never a panic or a hang
TParse ==
  /\ IsEvent("Parse")
  /\ LET e == Rec[l] IN
       \A i \in 1..Len(e.outcomes) :
         Diag("C14", e.outcomes[i] \in {"ok", "err"}, [kind |-> "parser did not return a value or an error", parser |-> e.kind, profile |-> e.profile, outcome |-> e.outcomes[i], text |-> e.texts[i]])
  /\ UNCHANGED <<pos, dom, consts>>

\* the command-line perft (depth 2): one line per root move "<peg>: <count> [<fen>]" and a total
TPerftCli ==
  /\ IsEvent("PerftCli")
  /\ LET e == Rec[l] p == Norm(e.pos) ms == Legal(p)
         want == { <<Peg(m), Cardinality(Legal(Apply(p, m))), ToFen(Apply(p, m))>> : m \in ms }
         got == { <<Concat(e.lines[i].peg), e.lines[i].count, Concat(e.lines[i].fen)>> : i \in 1..Len(e.lines) }
         RECURSIVE SumL(_)
         SumL(i) == IF i > Len(e.lines) THEN 0 ELSE e.lines[i].count + SumL(i + 1)
     IN IF ~LegalPosition(p) THEN TRUE ELSE
        /\ Diag("C01", Len(e.lines) = Cardinality(ms) /\ got = want, [kind |-> "command-line perft lines differ from the specification", pos |-> ToFen(p), missing |-> want \ got, extra |-> got \ want])
        /\ Diag("C01", e.total = SumL(1), [kind |-> "command-line perft total is not the sum of its lines", pos |-> ToFen(p), total |-> e.total])
  /\ UNCHANGED <<pos, dom, consts>>

TPanic ==
  /\ IsEvent("Panic")
  \* (events without a property name are judged under the property whose check recorded the trace)
  /\ Diag(IF "prop" \in DOMAIN Rec[l] THEN Rec[l].prop ELSE "PANIC", FALSE, [kind |-> "panic in code under test", where |-> Rec[l].where, msg |-> Rec[l].msg])
  /\ UNCHANGED <<pos, dom, consts>>

TraceInit == l = 1 /\ pos = StartPos /\ dom = TRUE /\ consts = [mate |-> <<0>>, threshold |-> 0]
TraceNext == TPerftCli \/ TParse \/ TReset \/ TMove \/ TTerminal \/ TPerformAll \/ TAttackOps \/ THashPair \/ TFen \/ TEvalConsts \/ TEval \/ TPerftNode \/ TPanic

Accepted == IF TLCGet("stats").diameter - 1 = Len(Rec) THEN PrintT(<<"ACCEPTED", Len(Rec)>>)
            ELSE PrintT(<<"STUCK", TLCGet("stats").diameter, Len(Rec)>>)
=============================================================================
