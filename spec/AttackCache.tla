------------------------------- MODULE AttackCache -------------------------------
(***************************************************************************)
(* C10, the history clause: a position object caches, per colour, the      *)
(* attack sets computed on first demand; objects are cloned (cache copied) *)
(* and new objects are derived by making a move (fresh cache).  Whatever   *)
(* the order of queries, clones and derivations, every answer must equal   *)
(* the pure function of the object's own board.  Boards are abstract       *)
(* (a finite set with a move relation and a pure attack function F that    *)
(* differs between boards); InheritOnDerive = TRUE models a derived object *)
(* that keeps its parent's cache (the stale-cache mistake) as the          *)
(* counterexample guard.                                                   *)
(***************************************************************************)
EXTENDS Naturals, FiniteSets, TLC
CONSTANTS Boards, Objects, MaxSteps, InheritOnDerive
Colors == {"w", "b"}
\* an abstract pure function: distinct boards have distinct attack sets for at least one colour
F(b, c) == <<b, c>>
Succ(b) == Boards \ {b}                      \* any other board is reachable by some move
VARIABLES board, cache, used, steps, wrong
vars == <<board, cache, used, steps, wrong>>
Unset == <<"unset", "unset">>
Init == /\ board \in [Objects -> Boards]
        /\ cache = [o \in Objects |-> [c \in Colors |-> Unset]]
        /\ used = {CHOOSE o \in Objects : TRUE}            \* one live object to begin with
        /\ steps = 0 /\ wrong = FALSE
Query(o, c) ==
  /\ o \in used /\ steps < MaxSteps
  /\ LET ans == IF cache[o][c] = Unset THEN F(board[o], c) ELSE cache[o][c] IN
       /\ wrong' = (wrong \/ ans # F(board[o], c))          \* the verdict is taken when the answer is given
       /\ cache' = [cache EXCEPT ![o][c] = ans]
  /\ steps' = steps + 1 /\ UNCHANGED <<board, used>>
Clone(o, n) ==
  /\ o \in used /\ n \notin used /\ steps < MaxSteps
  /\ board' = [board EXCEPT ![n] = board[o]] /\ cache' = [cache EXCEPT ![n] = cache[o]]
  /\ used' = used \cup {n} /\ steps' = steps + 1 /\ UNCHANGED wrong
Derive(o, n, b2) ==
  /\ o \in used /\ n \notin used /\ steps < MaxSteps /\ b2 \in Succ(board[o])
  /\ board' = [board EXCEPT ![n] = b2]
  /\ cache' = [cache EXCEPT ![n] = IF InheritOnDerive THEN cache[o] ELSE [c \in Colors |-> Unset]]
  /\ used' = used \cup {n} /\ steps' = steps + 1 /\ UNCHANGED wrong
Next == \/ \E o \in Objects, c \in Colors : Query(o, c)
        \/ \E o \in Objects, n \in Objects : Clone(o, n)
        \/ \E o \in Objects, n \in Objects, b2 \in Boards : Derive(o, n, b2)
AnswersPure == ~wrong
CacheSound == \A o \in used, c \in Colors : cache[o][c] # Unset => cache[o][c] = F(board[o], c)
=============================================================================
