INIT TraceInit
NEXT TraceNext
CONSTANTS
  Positions = {"open", "term"}
  MaxCmds = 100000
  MaxSearches = 16
  Iters = 100000
  SharedControl = FALSE
  FirstInterruptible = FALSE
POSTCONDITION Accepted
CHECK_DEADLOCK FALSE
