CONSTANTS
  T = 2
  B = 3
  S = 8
  Keys = {1, 7, 13, 19, 25, 31, 37, 43, 49, 101, 107, 2, 8, 3, 0}
  Vals = {1, 2, 3}
  Threads = {1, 2, 3}
  MaxOps = 60
  CmpMod = 0
INIT GInit
NEXT GNext
INVARIANT Emit
INVARIANT Faithful
INVARIANT CountOk
CHECK_DEADLOCK FALSE
