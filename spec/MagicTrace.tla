------------------------------ MODULE MagicTrace ------------------------------
(***************************************************************************)
(* C09: the implementation's attack lookups against board geometry.        *)
(* The harness enumerates, per square and slider, every subset of the      *)
(* squares on its rays (or of the relevant, non-edge squares) in blocks of *)
(* up to 64 occupancies; this module checks every answer against the ray   *)
(* walk of Chess.tla AND checks the enumeration itself (ray squares equal  *)
(* the specification's, all blocks distinct, their number = 2^(r-k)), so   *)
(* exhaustiveness is established on the specification side.               *)
(***************************************************************************)
EXTENDS Chess, Json, IOUtils, TLCExt

Rec == ndJsonDeserialize(IOEnv.TRACE)
VARIABLES l, cur
ToSetOf(seq) == { seq[i] : i \in 1..Len(seq) }
Diag(prop, ok, what) == IF ok THEN TRUE ELSE PrintT(<<"DIAG", ToJson([prop |-> prop, l |-> l, what |-> what])>>)
IsEvent(e) == l <= Len(Rec) /\ Rec[l].ev = e /\ l' = l + 1 /\ UNCHANGED pos

DirsOf(piece) == CASE piece = "R" -> RookDirs [] piece = "B" -> BishopDirs [] OTHER -> 1..8
\* squares reached from sq in direction d given the set of occupied squares
SlideOcc(occ, sq, d) ==
  LET ray == Rays[sq][d]
      blk == { i \in 1..Len(ray) : ray[i] \in occ }
      n == IF blk = {} THEN Len(ray) ELSE CHOOSE i \in blk : \A j \in blk : i <= j
  IN { ray[i] : i \in 1..n }
Geometry(piece, color, sq, occ) ==
  CASE piece \in {"R", "B", "Q"} -> UNION { SlideOcc(occ, sq, d) : d \in DirsOf(piece) }
    [] piece = "N" -> KnightTo[sq]
    [] piece = "K" -> KingTo[sq]
    [] piece = "P" -> PawnAtt[color][sq]
RaySquares(piece, sq, mode) ==
  UNION { LET ray == Rays[sq][d] IN { ray[i] : i \in 1..(IF mode = "relevant" /\ Len(ray) > 0 THEN Len(ray) - 1 ELSE Len(ray)) } : d \in DirsOf(piece) }
Pow2(n) == 2 ^ n
Bit(i, j) == (i \div Pow2(j)) % 2 = 1
Min(a, b) == IF a < b THEN a ELSE b

TSqStart ==
  /\ IsEvent("SqStart")
  /\ LET e == Rec[l] IN
       /\ Diag("TOOL", ToSetOf(e.rs) = RaySquares(e.piece, e.sq, e.mode) /\ Cardinality(ToSetOf(e.rs)) = Len(e.rs),
               [kind |-> "harness ray squares differ from the specification's", sq |-> e.sq, piece |-> e.piece])
       /\ cur' = [piece |-> e.piece, sq |-> e.sq, rs |-> e.rs, k |-> Min(6, Len(e.rs)), seen |-> {}]

TBlock ==
  /\ IsEvent("Block")
  /\ LET e == Rec[l] hi == ToSetOf(e.hi) IN
       /\ Diag("TOOL", e.piece = cur.piece /\ e.sq = cur.sq /\ hi \subseteq { cur.rs[j] : j \in (cur.k + 1)..Len(cur.rs) } /\ hi \notin cur.seen /\ Len(e.res) = Pow2(cur.k),
               [kind |-> "block does not belong to the enumeration", sq |-> e.sq, piece |-> e.piece])
       /\ \A i \in 0..(Pow2(cur.k) - 1) :
            LET occ == hi \cup { cur.rs[j + 1] : j \in { x \in 0..(cur.k - 1) : Bit(i, x) } } IN
            Diag("C09", ToSetOf(e.res[i + 1]) = Geometry(cur.piece, "w", cur.sq, occ),
                 [kind |-> "slider attack set differs from the ray walk", piece |-> cur.piece, sq |-> cur.sq, occ |-> occ, got |-> e.res[i + 1]])
       /\ cur' = [cur EXCEPT !.seen = cur.seen \cup {hi}]

TSqEnd ==
  /\ IsEvent("SqEnd")
  /\ Diag("TOOL", Cardinality(cur.seen) = Pow2(Len(cur.rs) - cur.k) /\ Rec[l].sq = cur.sq /\ Rec[l].piece = cur.piece,
          [kind |-> "enumeration incomplete", sq |-> cur.sq, piece |-> cur.piece, blocks |-> Cardinality(cur.seen)])
  /\ UNCHANGED cur

TAttack ==
  /\ IsEvent("Attack")
  /\ LET e == Rec[l] g == Geometry(e.piece, e.color, e.sq, ToSetOf(e.occ)) IN
       /\ Diag("C09", ToSetOf(e.ans) = g, [kind |-> "attack set differs from geometry", piece |-> e.piece, color |-> e.color, sq |-> e.sq, occ |-> e.occ, got |-> e.ans])
       /\ Diag("C09", ToSetOf(e.via) = g, [kind |-> "dispatching lookup differs from geometry", piece |-> e.piece, color |-> e.color, sq |-> e.sq, occ |-> e.occ, got |-> e.via])
  /\ UNCHANGED cur

TraceInit == l = 1 /\ pos = StartPos /\ cur = [piece |-> ".", sq |-> 0, rs |-> <<>>, k |-> 0, seen |-> {}]
TraceNext == TSqStart \/ TBlock \/ TSqEnd \/ TAttack
Accepted == IF TLCGet("stats").diameter - 1 = Len(Rec) THEN PrintT(<<"ACCEPTED", Len(Rec)>>)
            ELSE PrintT(<<"STUCK", TLCGet("stats").diameter, Len(Rec)>>)
=============================================================================
