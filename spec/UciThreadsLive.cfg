SPECIFICATION FairSpec
CONSTANTS
  Positions = {"book", "open", "term"}
  MaxCmds = 3
  MaxSearches = 2
  Iters = 2
  SharedControl = FALSE
  FirstInterruptible = FALSE
PROPERTIES CancelReturns
CHECK_DEADLOCK FALSE
