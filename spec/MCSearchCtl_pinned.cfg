CONSTANTS
 GAME = "tiny"
 Collide = FALSE
 PriorTables = FALSE
 Nodes <- GNodes
 Root = "R"
 MoveIds <- GMoveIds
 Moves <- GMoves
 Child <- GChild
 Static <- GStatic
 Status <- GStatus
 Key <- GKey
 History = {}
 Workers = 1
 MaxIter = 8
 MinPar = 99
 Orders <- GOrdersOne
 K = 4
 LoopChecksFlag = FALSE
 AssertLine = FALSE
 CapOrder <- GCap
 SlotOf <- GSlot
 TagCheck = TRUE
 TinyTable = FALSE
 StopAllowed = TRUE
INIT MCInit
NEXT Next
CHECK_DEADLOCK FALSE
INVARIANT BoundedResponse
