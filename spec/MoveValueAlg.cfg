CONSTANT SmallSquares = {1, 9, 25, 33, 49, 57, 64}
INIT AlgInitFull
NEXT AlgNext
INVARIANT ReadBack
CHECK_DEADLOCK FALSE
