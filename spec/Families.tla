------------------------------ MODULE Families ------------------------------
(***************************************************************************)
(* Specification -> implementation: parametrised families of positions,   *)
(* enumerated completely by TLC (one shard per process), each printed with *)
(* what the specification says the implementation must report for it:      *)
(* the legal moves with all attributes, every successor, check flag and    *)
(* status.  A replayer feeds each line to the real code and compares.      *)
(*   FAMILY, SHARD come from the environment (IOEnv).                      *)
(***************************************************************************)
EXTENDS ChessText, Json, IOUtils, TLCExt

Family == IOEnv.FAMILY
Shard == atoi(IOEnv.SHARD)        \* 0-based
Stride == atoi(IOEnv.STRIDE)      \* keep candidates whose index % Stride = Phase (sub-sampling; 1 = all)
Phase == atoi(IOEnv.PHASE)

EmptyBoard == [sq \in Squares |-> Empty]
Put(b, sq, pc) == [b EXCEPT ![sq] = pc]
\* the counters are part of the position and of no rule of move generation: they vary with the placement
\* (0 right after a double step), so that anything that lets them leak into moves, status or scores shows
ClockOf(b) == LET occ == { s \in Squares : b[s] # Empty } IN ((CHOOSE s \in occ : \A t \in occ : s <= t) * 7 + (CHOOSE s \in occ : \A t \in occ : s >= t) * 3) % 60
Pos(b, stm, castle, ep) == LET h == IF ep # 0 THEN 0 ELSE ClockOf(b) IN
                           [board |-> b, stm |-> stm, castle |-> castle, ep |-> ep, half |-> h, full |-> h \div 2 + 1 + (IF stm = "b" THEN 1 ELSE 0)]
Adjacent(a, b) == b \in KingTo[a]
Sample(x) == Stride = 1 \/ (x % Stride) = Phase

\* ---- three-man endgames: shard = white king square - 1, third piece of either colour ----
ThirdPieces == {"Q", "R", "B", "N", "P", "q", "r", "b", "n", "p"}
Kxk == { Pos(Put(Put(Put(EmptyBoard, Shard + 1, "K"), bk, "k"), x, pc), stm, {}, 0) :
           bk \in { s \in Squares : s # Shard + 1 /\ ~Adjacent(Shard + 1, s) },
           x \in Squares, pc \in ThirdPieces, stm \in {"w", "b"} }
KxkOk(p) == CountPc(p.board, "K") = 1 /\ CountPc(p.board, "k") = 1 /\ Cardinality({ s \in Squares : p.board[s] # Empty }) = 3

\* ---- en passant: shard = 0..27 = colour(2) x capturing pawn file pair (14) ----
\* white to move: white pawn on rank 5 (index 4) file f, black pawn just double-stepped next to it.
EpGeom == { <<f, g>> : f \in 0..7, g \in 0..7 } 
EpPairs == SetToSeq({ fg \in EpGeom : fg[1] - fg[2] \in {1, -1} })    \* 14 ordered pairs (capturer file, victim file)
EpFamily ==
  LET c == IF Shard < 14 THEN "w" ELSE "b"
      fg == EpPairs[(Shard % 14) + 1]
      r == IF c = "w" THEN 4 ELSE 3                 \* rank index of both pawns
      capt == Sq(fg[1], r)  vict == Sq(fg[2], r)
      ep == Sq(fg[2], r + Fwd(c))
      \* optionally a second capturer on the other side of the pawn that just double-stepped
      f2 == fg[2] + (fg[2] - fg[1])
      seconds == IF f2 \in 0..7 THEN {0, Sq(f2, r)} ELSE {0}
      b0 == Put(Put(EmptyBoard, capt, Mk(c, "P")), vict, Mk(Other(c), "P"))
      sliders == {"."} \cup { Mk(Other(c), k) : k \in {"R", "B", "Q"} }
      farKings == IF c = "w" THEN {57, 61, 64} ELSE {1, 5, 8}
  IN { Pos(Put(Put(IF sl = "." THEN (IF sec = 0 THEN b0 ELSE Put(b0, sec, Mk(c, "P"))) ELSE Put(IF sec = 0 THEN b0 ELSE Put(b0, sec, Mk(c, "P")), ssq, sl), ok, Mk(c, "K")), ek, Mk(Other(c), "K")), c, {}, ep) :
         ok \in Squares, ek \in farKings, sl \in sliders, ssq \in Squares, sec \in seconds }
EpOk(p) == Cardinality({ s \in Squares : p.board[s] # Empty }) \in {4, 5, 6} /\ CountPc(p.board, "K") = 1 /\ CountPc(p.board, "k") = 1
           /\ CountPc(p.board, Mk(p.stm, "P")) \in {1, 2} /\ CountPc(p.board, Mk(Other(p.stm), "P")) = 1
           /\ Cardinality({ s \in Squares : p.board[s] # Empty }) = 2 + CountPc(p.board, "P") + CountPc(p.board, "p") + Cardinality({ s \in Squares : p.board[s] \in {"R", "B", "Q", "r", "b", "q"} })

\* ---- castling: shard = 0..9 = colour(2) x enemy piece kind(5) ----
CastleFamily ==
  LET c == IF Shard < 5 THEN "w" ELSE "b"
      ek == <<"Q", "R", "B", "N", "P">>[(Shard % 5) + 1]
      k0 == IF c = "w" THEN 5 ELSE 61
      ra == k0 - 4  rh == k0 + 3
      kr == IF c = "w" THEN "K" ELSE "k"   qr == IF c = "w" THEN "Q" ELSE "q"
      base == Put(EmptyBoard, k0, Mk(c, "K"))
      rookCfg == { <<Put(Put(base, ra, Mk(c, "R")), rh, Mk(c, "R")), rights>> : rights \in SUBSET {kr, qr} }
                 \cup { <<Put(base, rh, Mk(c, "R")), rights>> : rights \in SUBSET {kr} }
                 \cup { <<Put(base, ra, Mk(c, "R")), rights>> : rights \in SUBSET {qr} }
      pathSq == {0, k0 - 3, k0 - 2, k0 - 1, k0 + 1, k0 + 2}
      blockers == {Mk(c, "N"), Mk(Other(c), "N")}
      enemyKings == IF c = "w" THEN {57, 61, 64, 17} ELSE {1, 5, 8, 41}
  IN { Pos(Put(IF bs = 0 THEN Put(rc[1], esq, Mk(Other(c), ek)) ELSE Put(Put(rc[1], esq, Mk(Other(c), ek)), bs, bl), okq, Mk(Other(c), "K")), stm, rc[2], 0) :
         rc \in rookCfg, esq \in Squares, bs \in pathSq, bl \in blockers, okq \in enemyKings, stm \in {c} }
CastleOk(p) == CountPc(p.board, "K") = 1 /\ CountPc(p.board, "k") = 1
               /\ Cardinality({ s \in Squares : p.board[s] # Empty }) \in {4, 5, 6}

\* ---- promotion: shard = 0..15 = colour(2) x pawn file(8) ----
PromoFamily ==
  LET c == IF Shard < 8 THEN "w" ELSE "b"
      f == Shard % 8
      r == IF c = "w" THEN 6 ELSE 1
      psq == Sq(f, r)
      last == r + Fwd(c)
      capL == IF f > 0 THEN {".", "N", "R", "Q", "B"} ELSE {"."}
      capR == IF f < 7 THEN {".", "N", "R", "Q", "B"} ELSE {"."}
      ahead == {".", "N"}
      b0 == Put(EmptyBoard, psq, Mk(c, "P"))
      With(b, sq, k) == IF k = "." THEN b ELSE Put(b, sq, Mk(Other(c), k))
      enemyKings == { Sq(x, last) : x \in 0..7 } \cup { Sq(x, last - Fwd(c)) : x \in {0, 3, 4, 7} } \cup { Sq(4, 3) }
  IN { Pos(Put(Put(With(With(With(b0, Sq(f, last), a), Sq(IF f > 0 THEN f - 1 ELSE f, last), cl), Sq(IF f < 7 THEN f + 1 ELSE f, last), cr), ok, Mk(c, "K")), ekq, Mk(Other(c), "K")), c, {}, 0) :
         a \in ahead, cl \in capL, cr \in capR, ok \in Squares, ekq \in enemyKings }
PromoOk(p) == CountPc(p.board, "K") = 1 /\ CountPc(p.board, "k") = 1 /\ (CountPc(p.board, "P") + CountPc(p.board, "p")) = 1

\* ---- pins and double checks: shard = 0..19 = own king square(10) x colour(2) ----
PinKingSquares == <<1, 4, 8, 28, 29, 33, 40, 57, 60, 64>>
PinFamily ==
  LET c == IF Shard < 10 THEN "w" ELSE "b"
      ksq == PinKingSquares[(Shard % 10) + 1]
      b0 == Put(EmptyBoard, ksq, Mk(c, "K"))
      far == CHOOSE s \in {64, 57, 8, 1, 36} : ~Adjacent(ksq, s) /\ s # ksq /\ FileOf(s) # FileOf(ksq) /\ RankOf(s) # RankOf(ksq)
      own == { Mk(c, k) : k \in {"N", "B", "R", "Q", "P"} }
      en1 == { Mk(Other(c), k) : k \in {"R", "B", "Q"} }
      en2 == {".", Mk(Other(c), "N")}
      en2sq == KnightTo[ksq]
  IN { Pos(Put(IF e2 = "." THEN Put(Put(b0, osq, o), e1sq, e1) ELSE Put(Put(Put(b0, osq, o), e1sq, e1), e2sq, e2), far, Mk(Other(c), "K")), c, {}, 0) :
         o \in own, osq \in Squares, e1 \in en1, e1sq \in Squares, e2 \in en2, e2sq \in en2sq }
PinOk(p) == CountPc(p.board, "K") = 1 /\ CountPc(p.board, "k") = 1 /\ Cardinality({ s \in Squares : p.board[s] # Empty }) \in {4, 5}

\* ---- four men: two attacking pieces, shard = attacker king square - 1 (+64 for Black attacking) ----
\* (enumerated lazily in Init; mates on every edge and with every pair of attackers)
Kxxk(p) == \E bk \in Squares, x \in Squares :
             /\ Sample(bk * 7 + x * 13)
             /\ \E y \in Squares, k1 \in {"Q", "R", "B", "N"}, k2 \in {"Q", "R", "B", "N", "P"}, stm \in {"w", "b"} :
                  LET c == IF Shard < 64 THEN "w" ELSE "b"
                      ak == (Shard % 64) + 1
                  IN /\ bk # ak /\ ~Adjacent(ak, bk) /\ x < y /\ Cardinality({ak, bk, x, y}) = 4
                     /\ p = Pos(Put(Put(Put(Put(EmptyBoard, ak, Mk(c, "K")), bk, Mk(Other(c), "K")), x, Mk(c, k1)), y, Mk(c, k2)), stm, {}, 0)

\* ---- king and one minor piece each, around a corner: the only checkmates with this material (the mated king's own
\* piece takes its last flight square).  shard = corner (0..3) + 4 for Black attacking ----
Near(c0, d) == { s \in Squares : (IF FileOf(s) >= FileOf(c0) THEN FileOf(s) - FileOf(c0) ELSE FileOf(c0) - FileOf(s)) <= d
                                  /\ (IF RankOf(s) >= RankOf(c0) THEN RankOf(s) - RankOf(c0) ELSE RankOf(c0) - RankOf(s)) <= d }
MinorFamily ==
  LET c == IF Shard < 4 THEN "w" ELSE "b"
      corner == <<1, 8, 57, 64>>[(Shard % 4) + 1]
  IN { Pos(Put(Put(Put(Put(EmptyBoard, corner, Mk(Other(c), "K")), own, Mk(Other(c), k2)), ak, Mk(c, "K")), x, Mk(c, k1)), stm, {}, 0) :
         <<own, ak, x, k1, k2, stm>> \in { q \in KingTo[corner] \X Near(corner, 3) \X Near(corner, 3) \X {"B", "N"} \X {"B", "N"} \X {"w", "b"} :
                                              Cardinality({corner, q[1], q[2], q[3]}) = 4 /\ ~Adjacent(q[2], corner) } }

Candidates == CASE Family = "KXK" -> { p \in Kxk : KxkOk(p) }
                [] Family = "MINOR" -> MinorFamily
                [] Family = "EP" -> { p \in EpFamily : EpOk(p) }
                [] Family = "CASTLE" -> { p \in CastleFamily : CastleOk(p) }
                [] Family = "PROMO" -> { p \in PromoFamily : PromoOk(p) }
                [] Family = "PIN" -> { p \in PinFamily : PinOk(p) }

MvStr(m) == SqName(m.from) \o SqName(m.to) \o m.piece \o m.capture \o m.promo \o (IF m.ep THEN "e" ELSE "-") \o m.castle \o (IF m.dbl THEN "d" ELSE "-")

\* a cheap structural index used for sub-sampling (TLC has no hash of values in TLA+)
RECURSIVE BoardIndex(_, _)
BoardIndex(b, sq) == IF sq > 64 THEN 0 ELSE (IF b[sq] = Empty THEN 0 ELSE sq * sq) + BoardIndex(b, sq + 1)

Init == IF Family = "KXXK" THEN Kxxk(pos) /\ LegalPosition(pos)
        ELSE pos \in { p \in Candidates : Sample(BoardIndex(p.board, 1)) /\ LegalPosition(p) }
Next == UNCHANGED pos
Emit == LET ms == Legal(pos) IN
        /\ (IF InsufficientMaterial(pos) /\ ms = {} /\ InCheck(pos.board, pos.stm)
            THEN PrintT(<<"DIAG", ToJson([prop |-> "ORACLE", l |-> 0, what |-> [kind |-> "checkmate with insufficient material: the rules specification is inconsistent", pos |-> ToFen(pos)]])>>) ELSE TRUE)
        /\ PrintT(<<"GEN", ToJson([fen |-> ToFen(pos), mfen |-> ToFen(Mirror(pos)), chk |-> InCheck(pos.board, pos.stm),
                                st |-> IF ms # {} THEN "open" ELSE IF InCheck(pos.board, pos.stm) THEN "mate" ELSE "stalemate",
                                imb |-> Imbalance(pos.board),
                                mvs |-> SetToSeq({ [m |-> MvStr(m), nx |-> ToFen(Apply(pos, m))] : m \in ms })])>>)
=============================================================================
