---------------------------------- MODULE Book ----------------------------------
(***************************************************************************)
(* C16: the opening book as a function of the game files.  AddGame walks   *)
(* the first BookDepth tokens of a game from the start position, resolving *)
(* each SAN token with the specification's own reader (unique resolution   *)
(* required) and records (PosKey(position), move).  The book the           *)
(* implementation must offer is exactly this relation; and whatever is     *)
(* offered for any position with a given key must be legal there, which    *)
(* is where a key coarser than PosKey fails (BookModel.tla).               *)
(* This run doubles as the oracle self-check: every token of every game    *)
(* must resolve to exactly one legal move and the +/# suffixes must agree  *)
(* with InCheck/Status.                                                    *)
(***************************************************************************)
EXTENDS ChessText, Json, IOUtils, TLCExt
Games == ndJsonDeserialize(IOEnv.GAMES)
BookDepth == atoi(IOEnv.DEPTH)        \* 10 for the book; 0 = whole games (self-check only)
Variants == IOEnv.VARIANTS = "1"
MvStr(m) == SqName(m.from) \o SqName(m.to) \o m.piece \o m.capture \o m.promo \o (IF m.ep THEN "e" ELSE "-") \o m.castle \o (IF m.dbl THEN "d" ELSE "-")
KeyStr(p) == Placement(p.board) \o " " \o p.stm \o " " \o CastleStr(p.castle) \o " " \o (IF p.ep # 0 /\ EpLegal(p) THEN SqName(p.ep) ELSE "-")
HomeRights(b) == { r \in {"K", "Q", "k", "q"} :
                     CASE r = "K" -> b[5] = "K" /\ b[8] = "R" [] r = "Q" -> b[5] = "K" /\ b[1] = "R"
                       [] r = "k" -> b[61] = "k" /\ b[64] = "r" [] OTHER -> b[61] = "k" /\ b[57] = "r" }
\* the same placement reached by another history: a right lost, or gained back, en-passant target differing
HistoryVariants(p) ==
  { v \in { [p EXCEPT !.castle = p.castle \ {r}] : r \in p.castle } \cup { [p EXCEPT !.castle = {}] }
          \cup { [p EXCEPT !.ep = 0] } : v # p /\ LegalPosition(v) }
VARIABLES gi, ti, bad, stack
EmitVariants(p) == \A v \in HistoryVariants(p) :
                     PrintT(<<"GEN", ToJson([kind |-> "variant", fen |-> ToFen(v), key |-> KeyStr(v), legal |-> SetToSeq({ MvStr(m) : m \in Legal(v) })])>>)
Init == gi = 1 /\ ti = 1 /\ pos = StartPos /\ bad = 0 /\ stack = <<>>
\* trie mode: Games is a depth-first linearisation of the prefix tree of all games (push token / pop),
\* so that every distinct (prefix, move) is resolved once
TrieNext ==
  /\ gi <= Len(Games) /\ gi' = gi + 1 /\ UNCHANGED ti
  /\ IF Games[gi].op = "pop" THEN /\ pos' = stack[Len(stack)] /\ stack' = SubSeq(stack, 1, Len(stack) - 1) /\ UNCHANGED bad
     ELSE LET tok == Games[gi].tok c == SanResolve(pos, tok) IN
          IF Cardinality(c) # 1
          THEN /\ PrintT(<<"DIAG", ToJson([prop |-> "ORACLE", l |-> gi, what |-> [kind |-> "token does not resolve to exactly one move", tok |-> tok, n |-> Cardinality(c), pos |-> ToFen(pos)]])>>)
               /\ bad' = bad + 1 /\ stack' = Append(stack, pos) /\ UNCHANGED pos
          ELSE LET m == CHOOSE x \in c : TRUE q == Apply(pos, m) IN
               /\ PrintT(<<"GEN", ToJson([kind |-> "entry", games |-> Games[gi].n, ply |-> Len(stack) + 1, key |-> KeyStr(pos), fen |-> ToFen(pos), mv |-> MvStr(m)])>>)
               /\ (IF Variants /\ (gi % 5 = 0) THEN EmitVariants(pos) ELSE TRUE)
               /\ stack' = Append(stack, pos) /\ pos' = q /\ UNCHANGED bad
FlatNext ==
  /\ UNCHANGED stack
  /\ gi <= Len(Games)
  /\ IF ti > Len(Games[gi].toks) \/ (BookDepth > 0 /\ ti > BookDepth)
     THEN gi' = gi + 1 /\ ti' = 1 /\ pos' = StartPos /\ UNCHANGED bad
     ELSE LET tok == Games[gi].toks[ti] c == SanResolve(pos, tok) IN
          IF Cardinality(c) # 1
          THEN /\ PrintT(<<"DIAG", ToJson([prop |-> "ORACLE", l |-> gi, what |-> [kind |-> "token does not resolve to exactly one move", game |-> Games[gi].g, ply |-> ti, tok |-> tok, n |-> Cardinality(c), pos |-> ToFen(pos)]])>>)
               /\ bad' = bad + 1 /\ gi' = gi + 1 /\ ti' = 1 /\ pos' = StartPos
          ELSE LET m == CHOOSE x \in c : TRUE q == Apply(pos, m)
                   sfx == SanSuffix(tok)
                   agree == IF sfx = "#" THEN Status(q) = "mate" ELSE IF sfx = "+" THEN InCheck(q.board, q.stm) ELSE ~InCheck(q.board, q.stm) IN
               /\ (IF BookDepth = 0 THEN TRUE ELSE PrintT(<<"GEN", ToJson([kind |-> "entry", game |-> Games[gi].g, ply |-> ti, key |-> KeyStr(pos), fen |-> ToFen(pos), mv |-> MvStr(m)])>>))
               /\ (IF Variants /\ ((gi + ti) % 7 = 0) THEN EmitVariants(pos) ELSE TRUE)
               /\ (IF agree THEN TRUE ELSE PrintT(<<"DIAG", ToJson([prop |-> "ORACLE", l |-> gi, what |-> [kind |-> "check suffix of the game record disagrees with the specification", game |-> Games[gi].g, ply |-> ti, tok |-> tok]])>>))
               /\ pos' = q /\ ti' = ti + 1 /\ gi' = gi /\ bad' = (IF agree THEN bad ELSE bad + 1)
Next == IF IOEnv.MODE = "trie" THEN TrieNext ELSE FlatNext
=============================================================================
