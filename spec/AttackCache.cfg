CONSTANTS
 Boards = {"b1", "b2"}
 Objects = {"o1", "o2", "o3"}
 MaxSteps = 6
 InheritOnDerive = FALSE
INIT Init
NEXT Next
INVARIANT AnswersPure
INVARIANT CacheSound
CHECK_DEADLOCK FALSE
