CONSTANTS
 Positions = {"book","open","open2","term"}
 MaxCmds = 8
 PinnedNewGame = FALSE
INIT Init
NEXT Next
INVARIANT NoUnsolicitedBestmove
INVARIANT AnsweredAtBarrier
INVARIANT AtMostOneDue
INVARIANT CleanAfterNewGame
CHECK_DEADLOCK FALSE
