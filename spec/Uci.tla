------------------------------- MODULE Uci -------------------------------
(***************************************************************************)
(* The UCI session (C07, C14, C18) at the level of uci::Client::exec:      *)
(* session state = current position, the running/finished search with the  *)
(* memory it owns, the memory kept between searches; every go/position/    *)
(* stop/ucinewgame/quit first collects a running search (its single        *)
(* bestmove is printed before the command returns); SearchFinish is the    *)
(* internal step "depth reached / mate found / timer fired" and may happen *)
(* at any time while a search runs, so every placement of a natural        *)
(* bestmove relative to the next command is a behaviour.  Garbage lines    *)
(* change nothing.  PinnedNewGame = TRUE models the pinned ucinewgame      *)
(* handler (drops only a *running* search's memory) as counterexample guard*)
(***************************************************************************)
EXTENDS Naturals, Sequences, FiniteSets, TLC
CONSTANTS
  \* @type: Set(Str);
  Positions,     \* abstract positions, e.g. {"book","open","open2","term"}
  \* @type: Int;
  MaxCmds,
  \* @type: Bool;
  PinnedNewGame  \* TRUE: model the pinned handler (drops only a running search's artifact)
NoArt == [has |-> FALSE, hist |-> {}]
NoSearch == [root |-> "-", st |-> "none", art |-> NoArt]
Kind(p) == IF p = "book" THEN "book" ELSE IF p = "term" THEN "term" ELSE "open"

\* (the @type comments are for Apalache, which proves the invariants inductive - UciInd.tla; TLC ignores them)
VARIABLES
  \* @type: Str;
  pos,        \* current position
  \* @type: { root: Str, st: Str, art: { has: Bool, hist: Set(Str) } };
  search,     \* "none" | [root, st: "run"|"fin", art: set of roots in its history]
  \* @type: { has: Bool, hist: Set(Str) };
  artifact,   \* "none" | set of position ids (history of searched roots)
  \* @type: Int;
  owed,       \* number of go-commands on open positions whose bestmove is still due
  \* @type: Bool;
  extra,      \* ghost: a bestmove was printed that no go was waiting for
  \* @type: Bool;
  stale,      \* ghost: a search started after ucinewgame with a non-empty memory
  \* @type: Bool;
  fresh,      \* ghost: TRUE from ucinewgame until the next search starts
  \* @type: Int;
  n,
  \* @type: Bool;
  alive
vars == <<pos, search, artifact, owed, extra, stale, fresh, n, alive>>

PrintBest == IF owed > 0 THEN owed' = owed - 1 /\ extra' = extra ELSE owed' = owed /\ extra' = TRUE

\* internal: the search reaches its depth limit / finds mate / the timer fires: writer prints bestmove
SearchFinish ==
  /\ alive /\ search.st = "run"
  /\ search' = [search EXCEPT !.st = "fin"]
  /\ IF Kind(search.root) = "open" THEN PrintBest ELSE UNCHANGED <<owed, extra>>
  /\ UNCHANGED <<pos, artifact, stale, fresh, n, alive>>

\* wait_cancel: Stop, join (a running search prints its bestmove now), collect the artifact
CollectThen(keepArtifact, P(_,_,_)) ==
  IF search.st = "none" THEN P(artifact, owed, extra)
  ELSE LET due == search.st = "run" /\ Kind(search.root) = "open"
           o2 == IF due /\ owed > 0 THEN owed - 1 ELSE owed
           e2 == IF due /\ owed = 0 THEN TRUE ELSE extra
       IN P(IF keepArtifact THEN search.art ELSE artifact, o2, e2)

Go ==
  /\ alive /\ n < MaxCmds /\ n' = n + 1
  /\ CollectThen(TRUE, LAMBDA a, o, e :
       IF Kind(pos) = "book"
       THEN /\ search' = NoSearch /\ artifact' = a /\ owed' = o /\ extra' = e     \* answered at once from the book
            /\ UNCHANGED <<stale, fresh>>
       ELSE /\ search' = [root |-> pos, st |-> "run", art |-> [has |-> TRUE, hist |-> a.hist \cup {pos}]]
            /\ artifact' = NoArt
            /\ owed' = (IF Kind(pos) = "open" THEN o + 1 ELSE o) /\ extra' = e
            /\ stale' = (stale \/ (fresh /\ a.has)) /\ fresh' = FALSE)
  /\ UNCHANGED <<pos, alive>>

Stop == /\ alive /\ n < MaxCmds /\ n' = n + 1
        /\ CollectThen(TRUE, LAMBDA a, o, e : artifact' = a /\ owed' = o /\ extra' = e)
        /\ search' = NoSearch /\ UNCHANGED <<pos, stale, fresh, alive>>
Position(p) == /\ alive /\ n < MaxCmds /\ n' = n + 1
               /\ CollectThen(TRUE, LAMBDA a, o, e : artifact' = a /\ owed' = o /\ extra' = e)
               /\ search' = NoSearch /\ pos' = p /\ UNCHANGED <<stale, fresh, alive>>
NewGame == /\ alive /\ n < MaxCmds /\ n' = n + 1
           /\ CollectThen(FALSE, LAMBDA a, o, e :
                /\ artifact' = (IF PinnedNewGame THEN a ELSE NoArt) /\ owed' = o /\ extra' = e)
           /\ search' = NoSearch /\ fresh' = TRUE /\ UNCHANGED <<pos, stale, alive>>
IsReady == alive /\ n < MaxCmds /\ n' = n + 1 /\ UNCHANGED <<pos, search, artifact, owed, extra, stale, fresh, alive>>
\* unknown command, malformed arguments, bad FEN, bad move token: an info string at most
Garbage == alive /\ n < MaxCmds /\ n' = n + 1 /\ UNCHANGED <<pos, search, artifact, owed, extra, stale, fresh, alive>>
Quit == /\ alive /\ n' = n
        /\ CollectThen(TRUE, LAMBDA a, o, e : artifact' = a /\ owed' = o /\ extra' = e)
        /\ search' = NoSearch /\ alive' = FALSE /\ UNCHANGED <<pos, stale, fresh>>

Init == /\ pos \in Positions /\ search = NoSearch /\ artifact = NoArt /\ owed = 0 /\ extra = FALSE
        /\ stale = FALSE /\ fresh = TRUE /\ n = 0 /\ alive = TRUE
Next == SearchFinish \/ Go \/ Stop \/ NewGame \/ IsReady \/ Garbage \/ Quit \/ (\E p \in Positions : Position(p))
        \/ (~alive /\ UNCHANGED vars)

\* ---- properties ----
NoUnsolicitedBestmove == ~extra
\* after any cancelling command (search = none) nothing is owed: every go has been answered
AnsweredAtBarrier == search.st = "none" => owed = 0
AtMostOneDue == owed <= 1
CleanAfterNewGame == ~stale
ReadyAlways == alive => ENABLED IsReady \/ n >= MaxCmds
\* liveness: under fairness of the search's own completion every owed bestmove is eventually printed
FairSpec == Init /\ [][Next]_vars /\ WF_vars(SearchFinish)
EventuallyAnswered == [](owed > 0 => <>(owed = 0))
=============================================================================
