CONSTANTS
 Positions = {"book","open","open2","term"}
 MaxCmds = 9
 PinnedNewGame = FALSE
INIT GInit
NEXT GNext
INVARIANT Emit
INVARIANT NoUnsolicitedBestmove
INVARIANT AnsweredAtBarrier
INVARIANT CleanAfterNewGame
CHECK_DEADLOCK FALSE
