------------------------------ MODULE MCSearch ------------------------------
(* Abstract games for model checking Search.tla. GAME selects the graph. *)
EXTENDS Search
CONSTANTS GAME, Collide, PriorTables

\* ---- game "mate7": root R, move a leads to a forced mate (R-a->A-a1->A1-m->M mate), move b into a loop ----
N1 == {"R","A","A1","M","B","B1","B2"}
Moves1 == [n \in N1 |-> CASE n = "R" -> {"a","b"} [] n = "A" -> {"a1"} [] n = "A1" -> {"m"} [] n = "M" -> {}
                        [] n = "B" -> {"b1"} [] n = "B1" -> {"b2"} [] n = "B2" -> {"b3"}]
Child1 == [n \in N1 |-> CASE n = "R" -> [x \in {"a","b"} |-> IF x = "a" THEN "A" ELSE "B"]
                        [] n = "A" -> [x \in {"a1"} |-> "A1"] [] n = "A1" -> [x \in {"m"} |-> "M"]
                        [] n = "M" -> [x \in {} |-> "M"]
                        [] n = "B" -> [x \in {"b1"} |-> "B1"] [] n = "B1" -> [x \in {"b2"} |-> "B2"]
                        [] n = "B2" -> [x \in {"b3"} |-> "B1"]]
Static1 == [n \in N1 |-> CASE n = "A" -> 1 [] n = "A1" -> -1 [] n = "B" -> -2 [] n = "B1" -> 2 [] n = "B2" -> -2 [] OTHER -> 0]
Status1 == [n \in N1 |-> IF n = "M" THEN "mate" ELSE "open"]

\* ---- game "coll": R and Rc have the same placement; only Rc may castle (D1 shape) ----
N2 == {"R","Rc","A","B","C"}
Moves2 == [n \in N2 |-> CASE n = "R" -> {"a","b"} [] n = "Rc" -> {"a","b","castle"} [] n = "A" -> {"x"} [] n = "B" -> {"x"} [] n = "C" -> {}]
Child2 == [n \in N2 |-> CASE n = "R" -> [x \in {"a","b"} |-> IF x = "a" THEN "A" ELSE "B"]
                        [] n = "Rc" -> [x \in {"a","b","castle"} |-> IF x = "a" THEN "A" ELSE IF x = "b" THEN "B" ELSE "C"]
                        [] n = "A" -> [x \in {"x"} |-> "C"] [] n = "B" -> [x \in {"x"} |-> "C"]
                        [] n = "C" -> [x \in {} |-> "C"]]
Static2 == [n \in N2 |-> CASE n = "A" -> 1 [] n = "B" -> -2 [] OTHER -> 0]
Status2 == [n \in N2 |-> IF n = "C" THEN "stale" ELSE "open"]

\* ---- game "twomates": two mating first moves a and b (mate in 3 plies each) plus a quiet move c; a transposition T ----
N3 == {"R","A","B","C","T","M","Q","Q1"}
Moves3 == [n \in N3 |-> CASE n = "R" -> {"a","b","c"} [] n = "A" -> {"t"} [] n = "B" -> {"t"} [] n = "C" -> {"q"} [] n = "T" -> {"m"}
                        [] n = "M" -> {} [] n = "Q" -> {"q1"} [] n = "Q1" -> {}]
Child3 == [n \in N3 |-> CASE n = "R" -> [x \in {"a","b","c"} |-> IF x = "a" THEN "A" ELSE IF x = "b" THEN "B" ELSE "C"]
                        [] n = "A" -> [x \in {"t"} |-> "T"] [] n = "B" -> [x \in {"t"} |-> "T"] [] n = "C" -> [x \in {"q"} |-> "Q"]
                        [] n = "T" -> [x \in {"m"} |-> "M"] [] n = "M" -> [x \in {} |-> "M"]
                        [] n = "Q" -> [x \in {"q1"} |-> "Q1"] [] n = "Q1" -> [x \in {} |-> "Q1"]]
Static3 == [n \in N3 |-> CASE n = "C" -> -3 [] n = "Q" -> 3 [] n = "A" -> -1 [] n = "B" -> -1 [] n = "T" -> 2 [] OTHER -> 0]
Status3 == [n \in N3 |-> IF n = "M" THEN "mate" ELSE IF n = "Q1" THEN "stale" ELSE "open"]

\* ---- game "tiny": R -a-> A -x-> S (stalemate): the whole tree has 3 nodes ----
N4 == {"R","A","S"}
Moves4 == [n \in N4 |-> CASE n = "R" -> {"a"} [] n = "A" -> {"x"} [] n = "S" -> {}]
Child4 == [n \in N4 |-> CASE n = "R" -> [m \in {"a"} |-> "A"] [] n = "A" -> [m \in {"x"} |-> "S"] [] n = "S" -> [m \in {} |-> "S"]]
Static4 == [n \in N4 |-> 0]
Status4 == [n \in N4 |-> IF n = "S" THEN "stale" ELSE "open"]

\* ---- game "mated": the root itself is checkmate ----
N5 == {"R"}
Moves5 == [n \in N5 |-> {}]
Child5 == [n \in N5 |-> [m \in {} |-> "R"]]
Static5 == [n \in N5 |-> 0]
Status5 == [n \in N5 |-> "mate"]

\* ---- game "rich": forced mate in 3 plies through a (both defences lose), b transposes into the same line but has an escape, c is quiet;
\*      T1 is reached at the same ply by two paths (transposition), L is a loop back towards the root's neighbourhood ----
N6 == {"R","A","B","C","T1","A2","B2","M","M2","Q","L"}
Moves6 == [n \in N6 |-> CASE n = "R" -> {"a","b","c"} [] n = "A" -> {"a1","a2"} [] n = "B" -> {"b1","b2"} [] n = "C" -> {"q"}
                        [] n = "T1" -> {"t"} [] n = "A2" -> {"x"} [] n = "B2" -> {"l"} [] n = "Q" -> {"l"} [] n = "L" -> {"r"} [] OTHER -> {}]
Child6 == [n \in N6 |-> CASE n = "R" -> [x \in {"a","b","c"} |-> IF x = "a" THEN "A" ELSE IF x = "b" THEN "B" ELSE "C"]
                        [] n = "A" -> [x \in {"a1","a2"} |-> IF x = "a1" THEN "T1" ELSE "A2"]
                        [] n = "B" -> [x \in {"b1","b2"} |-> IF x = "b1" THEN "T1" ELSE "B2"]
                        [] n = "C" -> [x \in {"q"} |-> "Q"] [] n = "T1" -> [x \in {"t"} |-> "M"] [] n = "A2" -> [x \in {"x"} |-> "M2"]
                        [] n = "B2" -> [x \in {"l"} |-> "L"] [] n = "Q" -> [x \in {"l"} |-> "L"] [] n = "L" -> [x \in {"r"} |-> "C"]
                        [] OTHER -> [x \in {} |-> n]]
Static6 == [n \in N6 |-> CASE n = "A" -> -2 [] n = "B" -> -1 [] n = "C" -> 1 [] n = "T1" -> 3 [] n = "A2" -> 2 [] n = "B2" -> -1 [] n = "Q" -> -1 [] n = "L" -> 1 [] OTHER -> 0]
Status6 == [n \in N6 |-> IF n \in {"M","M2"} THEN "mate" ELSE "open"]

\* ---- game "qs": a mate that only the quiescence search sees (capture, forced recapture, capturing mate), next to quiet moves ----
N7 == {"R","Q","X","Y","K2","M","Q1"}
Moves7 == [n \in N7 |-> CASE n = "R" -> {"q","x"} [] n = "Q" -> {"q1"} [] n = "X" -> {"r"} [] n = "Y" -> {"m","k"} [] n = "K2" -> {} [] n = "Q1" -> {} [] OTHER -> {}]
Child7 == [n \in N7 |-> CASE n = "R" -> [z \in {"q","x"} |-> IF z = "q" THEN "Q" ELSE "X"] [] n = "Q" -> [z \in {"q1"} |-> "Q1"]
                        [] n = "X" -> [z \in {"r"} |-> "Y"] [] n = "Y" -> [z \in {"m","k"} |-> IF z = "m" THEN "M" ELSE "K2"] [] OTHER -> [z \in {} |-> n]]
Static7 == [n \in N7 |-> CASE n = "Q" -> -1 [] n = "X" -> -3 [] n = "Y" -> 1 [] OTHER -> 0]
Status7 == [n \in N7 |-> IF n = "M" THEN "mate" ELSE IF n \in {"K2","Q1"} THEN "stale" ELSE "open"]
Cap7 == [n \in N7 |-> CASE n = "R" -> <<"x">> [] n = "X" -> <<"r">> [] n = "Y" -> <<"m">> [] OTHER -> <<>>]

GNodes == CASE GAME = "qs" -> N7 [] GAME = "rich" -> N6 [] GAME = "mate7" -> N1 [] GAME = "coll" -> N2 [] GAME = "twomates" -> N3 [] GAME = "tiny" -> N4 [] OTHER -> N5
GMoves == CASE GAME = "qs" -> Moves7 [] GAME = "rich" -> Moves6 [] GAME = "mate7" -> Moves1 [] GAME = "coll" -> Moves2 [] GAME = "twomates" -> Moves3 [] GAME = "tiny" -> Moves4 [] OTHER -> Moves5
GChild == CASE GAME = "qs" -> Child7 [] GAME = "rich" -> Child6 [] GAME = "mate7" -> Child1 [] GAME = "coll" -> Child2 [] GAME = "twomates" -> Child3 [] GAME = "tiny" -> Child4 [] OTHER -> Child5
GStatic == CASE GAME = "qs" -> Static7 [] GAME = "rich" -> Static6 [] GAME = "mate7" -> Static1 [] GAME = "coll" -> Static2 [] GAME = "twomates" -> Static3 [] GAME = "tiny" -> Static4 [] OTHER -> Static5
GStatus == CASE GAME = "qs" -> Status7 [] GAME = "rich" -> Status6 [] GAME = "mate7" -> Status1 [] GAME = "coll" -> Status2 [] GAME = "twomates" -> Status3 [] GAME = "tiny" -> Status4 [] OTHER -> Status5
GCap == IF GAME = "qs" THEN Cap7 ELSE [n \in GNodes |-> <<>>]
\* table geometry: one slot per key (no displacement), or everything squeezed into two slots
CONSTANT TinyTable
GSlot == [k \in { (IF Collide /\ n = "Rc" THEN "R" ELSE n) : n \in GNodes } |-> IF TinyTable THEN (IF k \in {"R", "A", "T1", "M", "X", "Q"} THEN "s1" ELSE "s2") ELSE k]
GKey == [n \in GNodes |-> IF Collide /\ n = "Rc" THEN "R" ELSE n]
GMoveIds == UNION { GMoves[n] : n \in GNodes }
\* move orders: every permutation at the root (the seed's jitter), one fixed order elsewhere
Perms(S) == { p \in [1..Cardinality(S) -> S] : \A i, j \in 1..Cardinality(S) : i # j => p[i] # p[j] }
GOrdersAll == [n \in GNodes |-> IF n \in {"R", "A", "B"} THEN Perms(GMoves[n]) ELSE IF GMoves[n] = {} THEN {<<>>} ELSE { CHOOSE p \in Perms(GMoves[n]) : TRUE }]
GOrdersOne == [n \in GNodes |-> IF GMoves[n] = {} THEN {<<>>} ELSE { CHOOSE p \in Perms(GMoves[n]) : TRUE }]

\* any table a previous search (of any root, any depth) could have left behind: every entry is legal
\* for *some* node with that key
PriorEntries(k) == {NoEntry} \cup { [kind |-> kd, mv |-> m, cur |-> 0, mx |-> d, eval |-> 0, key |-> k] :
                                    m \in UNION { GMoves[n] : n \in { x \in GNodes : GKey[x] = k } }, d \in {1, 3}, kd \in {"E"} }
InitAny == /\ tt \in [Slots -> UNION { PriorEntries(k) : k \in Keys }]
           /\ \A sl \in Slots : tt[sl] \in UNION { PriorEntries(k) : k \in { x \in Keys : SlotOf[x] = sl } }
           /\ iter = 0 /\ stk = [w \in 0..(Workers - 1) |-> <<>>] /\ res = [w \in 0..(Workers - 1) |-> <<"idle">>]
           /\ reports = <<>> /\ phase = "start"
           /\ cancel = FALSE /\ cnt = [w \in 0..(Workers - 1) |-> 0] /\ post = [w \in 0..(Workers - 1) |-> 0] /\ panicked = FALSE
MCInit == IF PriorTables THEN InitAny ELSE Init
MCSpec == MCInit /\ [][Next]_vars /\ Fair
=============================================================================
