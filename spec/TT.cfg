CONSTANTS
  T = 2
  B = 1
  S = 2
  Keys = {1, 2, 3, 4, 5, 6}
  Vals = {1, 2}
  Threads = {1, 2}
  MaxOps = 3
  CmpMod = 0
SPECIFICATION Spec
INVARIANT Faithful
INVARIANT CountOk
INVARIANT Bounded
INVARIANT Routing
INVARIANT Fresh
PROPERTY Retained
CHECK_DEADLOCK FALSE
