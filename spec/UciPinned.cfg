CONSTANTS
 Positions = {"book","open","open2","term"}
 MaxCmds = 6
 PinnedNewGame = TRUE
INIT Init
NEXT Next
INVARIANT NoUnsolicitedBestmove
INVARIANT AnsweredAtBarrier
INVARIANT AtMostOneDue
INVARIANT CleanAfterNewGame
CHECK_DEADLOCK FALSE
