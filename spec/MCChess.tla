---- MODULE MCChess ----
EXTENDS Chess
CONSTANT MaxPly
VARIABLE ply
Kiwipete == [board |-> << "R",".",".",".","K",".",".","R", "P","P","P","B","B","P","P","P",
                         ".",".","N",".",".","Q",".","p", ".","p",".",".","P",".",".",".",
                         ".",".",".","P","N",".",".",".", "b","n",".",".","p","n","p",".",
                         "p",".","p","p","q","p","b",".", "r",".",".",".","k",".",".","r" >>,
             stm |-> "w", castle |-> {"K","Q","k","q"}, ep |-> 0, half |-> 0, full |-> 1]
Init == ChessInit({StartPos, Kiwipete}) /\ ply = 0
Next == ply < MaxPly /\ ChessNext /\ ply' = ply + 1
\* Apply-level invariants of C02 stated on transitions
RightsOnlyShrink == [][(pos').castle \subseteq pos.castle]_<<pos, ply>>
FullmoveRule == [][(pos').full = pos.full + (IF pos.stm = "b" THEN 1 ELSE 0)]_<<pos, ply>>
SideAlternates == [][(pos').stm = Other(pos.stm)]_<<pos, ply>>
====
