-------------------------------- MODULE UciTrace --------------------------------
(***************************************************************************)
(* Trace validation of real `weechess uci` transcripts (C07, C14, C18).    *)
(* The session model is that of Uci.tla made concrete with Chess.tla: the  *)
(* current position is computed by the specification from the commands,    *)
(* `due` is the queue of go-commands still owed a bestmove, and a barrier  *)
(* (`readyok` after a cancelling command) must find nothing owed.          *)
(***************************************************************************)
EXTENDS ChessText, Json, IOUtils, TLCExt

Rec == ndJsonDeserialize(IOEnv.TRACE)
VARIABLES l, due, clean, sess, wantUci, ids, resync, armed, fromBook
tvars == <<pos, l, due, clean, sess, wantUci, ids, resync, armed, fromBook>>
\* the opening book the specification built from the game files (Book.tla): key text -> LAN texts; optional
BookRel == IF "BOOK" \in DOMAIN IOEnv THEN JsonDeserialize(IOEnv.BOOK) ELSE [none |-> <<>>]
BookKey(p) == Placement(p.board) \o " " \o p.stm \o " " \o CastleStr(p.castle) \o " " \o (IF p.ep # 0 /\ EpLegal(p) THEN SqName(p.ep) ELSE "-")
ToSetOf(seq) == { seq[i] : i \in 1..Len(seq) }
Norm(p) == [board |-> p.board, stm |-> p.stm, castle |-> ToSetOf(p.castle), ep |-> p.ep, half |-> p.half, full |-> p.full]
Diag(prop, ok, what) == IF ok THEN TRUE ELSE PrintT(<<"DIAG", ToJson([prop |-> prop, l |-> l, what |-> what])>>)
IsEvent(e) == l <= Len(Rec) /\ Rec[l].ev = e /\ l' = l + 1
P == IF sess.wellformed THEN "C07" ELSE "C14"
MarkAll(q) == [i \in 1..Len(q) |-> [q[i] EXCEPT !.must = TRUE]]

\* position after a list of coordinate triples, or "bad" when one of them does not resolve uniquely
RECURSIVE Play(_, _, _)
Play(p, mvs, i) == IF i > Len(mvs) THEN [ok |-> TRUE, p |-> p]
                   ELSE LET r == Resolve(p, mvs[i][1], mvs[i][2], mvs[i][3]) IN
                        IF Cardinality(r) # 1 THEN [ok |-> FALSE, p |-> p] ELSE Play(Apply(p, CHOOSE m \in r : TRUE), mvs, i + 1)

RECURSIVE LanFollow(_, _, _)
LanFollow(p, toks, i) == IF i > Len(toks) THEN TRUE
                         ELSE \E m \in { x \in Legal(p) : Lan(x) = Concat(toks[i]) } : LanFollow(Apply(p, m), toks, i + 1)

TSession ==
  /\ IsEvent("Session")
  /\ pos' = StartPos /\ due' = <<>> /\ clean' = TRUE /\ sess' = [wellformed |-> Rec[l].wellformed, id |-> Rec[l].id, pacing |-> Rec[l].pacing]
  /\ wantUci' = FALSE /\ ids' = 0 /\ resync' = FALSE /\ armed' = 0 /\ fromBook' = FALSE

\* a go with a long time limit on an open position that is not answered from the book arms the
\* "isready even while a search runs" clause: the next readyok has to come before that search's bestmove
TIn ==
  /\ IsEvent("In")
  /\ UNCHANGED fromBook
  \* armed: 0 = no long search running; 1 = running, no readyok outstanding; 2 = running and a readyok is outstanding (every command
  \* the driver sends is followed by one isready barrier, an isready command is its own barrier)
  /\ armed' = (IF Rec[l].kind = "go" /\ "long" \in DOMAIN Rec[l] THEN (IF LegalPosition(pos) /\ Legal(pos) # {} THEN 2 ELSE 0)
               ELSE IF Rec[l].kind \in {"stop", "quit", "eof", "position", "ucinewgame", "go"} THEN 0
               ELSE IF armed >= 1 THEN 2 ELSE 0)
  /\ LET e == Rec[l] IN
     CASE e.kind = "position" ->
            IF ~e.valid THEN /\ resync' = TRUE /\ due' = MarkAll(due) /\ UNCHANGED <<pos, clean, sess, wantUci, ids>>
            ELSE LET base == IF e.base = "startpos" THEN StartPos ELSE Norm(e.pos)
                     r == Play(base, e.moves, 1) IN
                 /\ Diag("TOOL", r.ok /\ (e.base = "startpos" \/ Concat(e.fen) = ToFen(base)), [kind |-> "driver sent a position command the specification cannot follow", session |-> sess.id])
                 /\ pos' = r.p /\ resync' = FALSE /\ due' = MarkAll(due) /\ UNCHANGED <<clean, sess, wantUci, ids>>
       [] e.kind = "go" ->
            /\ due' = (IF Legal(pos) # {} THEN Append(MarkAll(due), [p |-> pos, must |-> FALSE]) ELSE MarkAll(due))
            /\ UNCHANGED <<pos, clean, sess, wantUci, ids, resync>>
       [] e.kind \in {"stop", "quit", "eof"} -> /\ due' = MarkAll(due) /\ UNCHANGED <<pos, clean, sess, wantUci, ids, resync>>
       \* the property does not say what ucinewgame does to the current position: it is re-read from the engine (`.state`)
       [] e.kind = "ucinewgame" -> /\ due' = MarkAll(due) /\ clean' = TRUE /\ resync' = TRUE /\ UNCHANGED <<pos, sess, wantUci, ids>>
       [] e.kind = "uci" -> /\ wantUci' = TRUE /\ ids' = 0 /\ UNCHANGED <<pos, due, clean, sess, resync>>
       [] OTHER -> UNCHANGED <<pos, due, clean, sess, wantUci, ids, resync>>

TState ==
  /\ IsEvent("State")
  /\ LET e == Rec[l] IN
       IF resync THEN /\ pos' = (IF e.seen THEN Norm(e.pos) ELSE pos) /\ resync' = FALSE
       ELSE /\ Diag(P, e.seen /\ Concat(e.fen) = ToFen(pos), [kind |-> "engine's current position differs from the one the rules define", expected |-> ToFen(pos), got |-> Concat(e.fen), session |-> sess.id])
            /\ UNCHANGED <<pos, resync>>
  /\ UNCHANGED <<due, clean, sess, wantUci, ids, armed, fromBook>>

TOut ==
  /\ IsEvent("Out")
  /\ (IF Rec[l].kind = "bestmove" /\ armed = 2
      THEN Diag(P, FALSE, [kind |-> "isready was not answered while the search was running (readyok only after the bestmove)", session |-> sess.id])
      ELSE TRUE)
  /\ armed' = (IF Rec[l].kind \in {"bestmove", "book"} THEN 0 ELSE IF Rec[l].kind = "readyok" /\ armed = 2 THEN 1 ELSE armed)
  /\ fromBook' = (IF Rec[l].kind = "book" THEN TRUE ELSE IF Rec[l].kind = "bestmove" THEN FALSE ELSE fromBook)
  /\ (IF Rec[l].kind = "bestmove" /\ due # <<>> /\ "BOOK" \in DOMAIN IOEnv
      THEN LET k == BookKey(due[1].p) IN
           \* (whether the front end consults the book at all is its own choice; only what the book answered is judged)
           \* a position of the game files: only moves played there; any other position: nothing or a legal move
           IF ~fromBook THEN TRUE
           ELSE IF k \in DOMAIN BookRel
                THEN Diag("C16", Concat(Rec[l].mv) \in ToSetOf(BookRel[k]),
                          [kind |-> "move answered from the opening book was not played from this position in the game files", pos |-> ToFen(due[1].p), mv |-> Concat(Rec[l].mv), session |-> sess.id])
                ELSE Diag("C16", Concat(Rec[l].mv) \in { Lan(m) : m \in Legal(due[1].p) },
                          [kind |-> "move answered from the opening book is not legal in this position (reached by another history)", pos |-> ToFen(due[1].p), mv |-> Concat(Rec[l].mv), session |-> sess.id])
      ELSE TRUE)
  \* `info pv <moves>`: a line reported by the search that is running - the one the latest go started (C03 seen through the front end)
  /\ (IF Rec[l].kind = "pv" /\ due # <<>> /\ LegalPosition(due[Len(due)].p)
      THEN Diag("C03", Len(Rec[l].pv) >= 1 /\ LanFollow(due[Len(due)].p, Rec[l].pv, 1),
                [kind |-> "info pv line is empty or not playable from the position searched", pos |-> ToFen(due[Len(due)].p), line |-> [j \in 1..Len(Rec[l].pv) |-> Concat(Rec[l].pv[j])], session |-> sess.id])
      ELSE TRUE)
  /\ LET e == Rec[l] IN
     CASE e.kind = "bestmove" ->
            IF due = <<>> THEN /\ Diag(P, FALSE, [kind |-> "bestmove that no go was waiting for", mv |-> Concat(e.mv), session |-> sess.id]) /\ UNCHANGED <<due, wantUci, ids>>
            ELSE /\ Diag(P, ~LegalPosition(due[1].p) \/ Concat(e.mv) \in { Lan(m) : m \in Legal(due[1].p) }, [kind |-> "bestmove is not a legal move of the position searched, in coordinate notation", mv |-> Concat(e.mv), pos |-> ToFen(due[1].p), session |-> sess.id])
                 /\ due' = Tail(due) /\ UNCHANGED <<wantUci, ids>>
       [] e.kind = "readyok" ->
            /\ Diag(P, \A i \in 1..Len(due) : ~due[i].must, [kind |-> "go not answered by a bestmove before the next cancelling command returned", pos |-> (IF due # <<>> THEN ToFen(due[1].p) ELSE ""), session |-> sess.id, pacing |-> sess.pacing])
            /\ Diag(P, ~wantUci, [kind |-> "uci not answered with uciok", session |-> sess.id])
            /\ due' = SelectSeq(due, LAMBDA d : ~d.must) /\ wantUci' = FALSE /\ UNCHANGED ids
       [] e.kind = "uciok" -> /\ Diag(P, ids >= 2, [kind |-> "uciok without id lines", session |-> sess.id]) /\ wantUci' = FALSE /\ UNCHANGED <<due, ids>>
       [] e.kind = "id" -> /\ ids' = ids + 1 /\ UNCHANGED <<due, wantUci>>
       [] OTHER -> UNCHANGED <<due, wantUci, ids>>
  /\ UNCHANGED <<pos, clean, sess, resync>>

TWaitEnd ==
  /\ IsEvent("WaitEnd")
  /\ Diag(P, due = <<>>, [kind |-> "no bestmove although the search's limit was reached", pos |-> (IF due # <<>> THEN ToFen(due[1].p) ELSE ""), session |-> sess.id])
  /\ due' = <<>> /\ UNCHANGED <<pos, clean, sess, wantUci, ids, resync, armed, fromBook>>

TSearchStart ==
  /\ IsEvent("SearchStart")
  /\ LET e == Rec[l] IN
       Diag("C18", clean => (e.fresh /\ e.history_len <= 0 /\ e.table_entries <= 0),
            [kind |-> "first search after ucinewgame started with a used search memory", history_len |-> e.history_len, table_entries |-> e.table_entries, session |-> sess.id])
  /\ clean' = FALSE /\ UNCHANGED <<pos, due, sess, wantUci, ids, resync, armed, fromBook>>

THang ==
  /\ IsEvent("Hang")
  /\ Diag(P, FALSE, [kind |-> "no readyok: the engine stopped answering", after |-> Rec[l].after, session |-> sess.id])
  /\ due' = <<>> /\ UNCHANGED <<pos, clean, sess, wantUci, ids, resync, armed, fromBook>>

TExit ==
  /\ IsEvent("Exit")
  /\ LET e == Rec[l] IN
       /\ Diag(P, e.status = 0, [kind |-> "process did not exit with status 0", status |-> e.status, stderr |-> e.stderr, session |-> sess.id])
       /\ Diag(P, due = <<>> \/ e.status # 0, [kind |-> "go never answered by a bestmove", pos |-> (IF due # <<>> THEN ToFen(due[1].p) ELSE ""), session |-> sess.id])
  /\ due' = <<>> /\ UNCHANGED <<pos, clean, sess, wantUci, ids, resync, armed, fromBook>>

TraceInit == l = 1 /\ pos = StartPos /\ due = <<>> /\ clean = TRUE /\ sess = [wellformed |-> TRUE, id |-> 0, pacing |-> ""] /\ wantUci = FALSE /\ ids = 0 /\ resync = FALSE /\ armed = 0 /\ fromBook = FALSE
TraceNext == TSession \/ TIn \/ TState \/ TOut \/ TWaitEnd \/ TSearchStart \/ THang \/ TExit
Accepted == IF TLCGet("stats").diameter - 1 = Len(Rec) THEN PrintT(<<"ACCEPTED", Len(Rec)>>)
            ELSE PrintT(<<"STUCK", TLCGet("stats").diameter, Len(Rec)>>)
=============================================================================
