CONSTANTS
 Collide = TRUE
 MaxPlies = 3
INIT Init
NEXT Next
INVARIANT BookSound
CHECK_DEADLOCK FALSE
