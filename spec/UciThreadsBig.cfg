SPECIFICATION Spec
CONSTANTS
  Positions = {"book", "open", "term"}
  MaxCmds = 5
  MaxSearches = 3
  Iters = 3
  SharedControl = FALSE
  FirstInterruptible = FALSE
INVARIANTS NoPanic OnlyOwnTimer AtMostOneSearching BestmoveAtMostOnce CollectedMeansAnswered NoUnsolicitedBestmove AnsweredAtBarrier
PROPERTIES Refines
CHECK_DEADLOCK FALSE
