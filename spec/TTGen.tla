--------------------------------- MODULE TTGen ---------------------------------
(* Specification -> implementation: operation sequences of TT.tla (simulation mode), printed   *)
(* one behaviour per line; the harness executes them on the real table, single- and            *)
(* multi-threaded, and TTTrace.tla judges what the real table answered.                        *)
EXTENDS TT, Json, TLCExt
VARIABLE hist
GInit == Init /\ hist = <<>>
GNext ==
  \/ \E th \in Threads, k \in Keys, v \in Vals : InsertWrite(th, k, v) /\ hist' = Append(hist, [th |-> th, op |-> "ins", k |-> k, v |-> v])
  \/ \E th \in Threads : InsertBump(th) /\ UNCHANGED hist
  \/ \E th \in Threads : EntriesStart(th) /\ hist' = Append(hist, [th |-> th, op |-> "entries", k |-> 0, v |-> 0])
  \/ \E th \in Threads : (EntriesStep(th) \/ EntriesEnd(th)) /\ UNCHANGED hist
  \/ \E th \in Threads, k \in Keys : Find(th, k) /\ hist' = Append(hist, [th |-> th, op |-> "find", k |-> k, v |-> 0])
Done == \A th \in Threads : ops[th] = MaxOps
Emit == Done => PrintT(<<"GEN", ToJson([T |-> T, B |-> B, ops |-> hist])>>)
=============================================================================
