CONSTANT SmallSquares = {1, 9, 25, 33, 49, 57, 64}
INIT TraceInit
NEXT TraceNext
POSTCONDITION Accepted
CHECK_DEADLOCK FALSE
