CONSTANTS
 GAME = "mate7"
 Collide = FALSE
 PriorTables = FALSE
 Nodes <- GNodes
 Root = "R"
 MoveIds <- GMoveIds
 Moves <- GMoves
 Child <- GChild
 Static <- GStatic
 Status <- GStatus
 Key <- GKey
 History = {}
 Workers = 3
 MaxIter = 3
 MinPar = 1
 Orders <- GOrdersAll
 K = 1000
 LoopChecksFlag = TRUE
 AssertLine = FALSE
 CapOrder <- GCap
 SlotOf <- GSlot
 TagCheck = TRUE
 TinyTable = FALSE
 StopAllowed = FALSE
INIT MCInit
NEXT Next
CHECK_DEADLOCK FALSE
INVARIANT LegalLine
INVARIANT MateSound
INVARIANT MateFound
INVARIANT NoPanic
