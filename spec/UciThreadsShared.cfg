SPECIFICATION Spec
CONSTANTS
  Positions = {"book", "open", "term"}
  MaxCmds = 4
  MaxSearches = 2
  Iters = 2
  SharedControl = TRUE
  FirstInterruptible = FALSE
INVARIANTS NoPanic OnlyOwnTimer AtMostOneSearching BestmoveAtMostOnce CollectedMeansAnswered NoUnsolicitedBestmove AnsweredAtBarrier
PROPERTIES Refines
CHECK_DEADLOCK FALSE
