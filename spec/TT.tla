---------------------------------- MODULE TT ----------------------------------
(***************************************************************************)
(* C15: the shared transposition table as a bounded concurrent map.        *)
(* T sub-tables, each B buckets of S slots; routing t = k % T, b = k % B   *)
(* (the same arithmetic as the code, on the same integers).  An insert     *)
(* holds its sub-table's write lock across two steps (slot write, counter  *)
(* bump) like the code; a find holds the read lock; entries() reads the    *)
(* sub-table counters one read lock at a time (not a snapshot).            *)
(* A full bucket displaces *some* present key: the victim is not part of   *)
(* the property.  The verdict of every observation is computed in the      *)
(* observing action (ghost `bad`), not by comparing it with later state.   *)
(***************************************************************************)
EXTENDS Naturals, Sequences, FiniteSets, TLC

CONSTANTS T, B, S, Keys, Vals, Threads, MaxOps,
          CmpMod    \* 0: keys are compared exactly; n > 0: a deliberately broken lookup that compares keys modulo n (vacuity guard)
NoVal == 0
Tab(k) == k % T
Buc(k) == k % B

VARIABLES
  slot,     \* slot[t][b] : function from present keys to values
  used,     \* used[t]    : the sub-table's entry counter
  wlock,    \* wlock[t]   : thread holding the write lock, or 0
  rlock,    \* rlock[t]   : set of threads holding the read lock
  pc,       \* pc[th]     : "idle" | [op |-> ...] mid-operation record
  ops,      \* ops[th]    : operations performed so far
  last,     \* ghost: last value whose insert *completed its slot write* per key
  bad       \* ghost: some observation contradicted the property
vars == <<slot, used, wlock, rlock, pc, ops, last, bad>>

Idle == [st |-> "idle", k |-> 0, v |-> 0, t |-> 0, acc |-> 0, inserted |-> FALSE]
Present(t) == UNION { DOMAIN slot[t][b] : b \in 0..(B - 1) }
Count(t) == Cardinality({ <<b, k>> \in (0..(B - 1)) \X Keys : k \in DOMAIN slot[t][b] })

Init ==
  /\ slot = [t \in 0..(T - 1) |-> [b \in 0..(B - 1) |-> <<>>]]
  /\ used = [t \in 0..(T - 1) |-> 0]
  /\ wlock = [t \in 0..(T - 1) |-> 0]
  /\ rlock = [t \in 0..(T - 1) |-> {}]
  /\ pc = [th \in Threads |-> Idle]
  /\ ops = [th \in Threads |-> 0]
  /\ last = [k \in Keys |-> NoVal]
  /\ bad = FALSE

\* ---- insert: acquire write lock + slot write; then counter bump + release ----------------
InsertWrite(th, k, v) ==
  /\ pc[th].st = "idle" /\ ops[th] < MaxOps
  /\ wlock[Tab(k)] = 0 /\ rlock[Tab(k)] = {}
  /\ LET t == Tab(k) b == Buc(k) cur == slot[t][b] IN
       \/ /\ k \in DOMAIN cur                       \* present: swapped in place
          /\ slot' = [slot EXCEPT ![t][b] = [x \in DOMAIN cur |-> IF x = k THEN v ELSE cur[x]]]
          /\ pc' = [pc EXCEPT ![th] = [Idle EXCEPT !.st = "bump", !.k = k, !.t = t, !.inserted = FALSE]]
       \/ /\ k \notin DOMAIN cur /\ Cardinality(DOMAIN cur) < S
          /\ slot' = [slot EXCEPT ![t][b] = [x \in DOMAIN cur \cup {k} |-> IF x = k THEN v ELSE cur[x]]]
          /\ pc' = [pc EXCEPT ![th] = [Idle EXCEPT !.st = "bump", !.k = k, !.t = t, !.inserted = TRUE]]
       \/ /\ k \notin DOMAIN cur /\ Cardinality(DOMAIN cur) = S
          /\ \E victim \in DOMAIN cur :
               slot' = [slot EXCEPT ![t][b] = [x \in (DOMAIN cur \ {victim}) \cup {k} |-> IF x = k THEN v ELSE cur[x]]]
          /\ pc' = [pc EXCEPT ![th] = [Idle EXCEPT !.st = "bump", !.k = k, !.t = t, !.inserted = FALSE]]
  /\ wlock' = [wlock EXCEPT ![Tab(k)] = th]
  /\ last' = [last EXCEPT ![k] = v]
  /\ UNCHANGED <<used, rlock, ops, bad>>

InsertBump(th) ==
  /\ pc[th].st = "bump"
  /\ used' = [used EXCEPT ![pc[th].t] = @ + (IF pc[th].inserted THEN 1 ELSE 0)]
  /\ wlock' = [wlock EXCEPT ![pc[th].t] = 0]
  /\ pc' = [pc EXCEPT ![th] = Idle]
  /\ ops' = [ops EXCEPT ![th] = @ + 1]
  /\ UNCHANGED <<slot, rlock, last, bad>>

\* ---- find: one step under the read lock; the verdict is taken here ------------------------
Find(th, k) ==
  /\ pc[th].st = "idle" /\ ops[th] < MaxOps
  /\ wlock[Tab(k)] = 0
  /\ LET cur == slot[Tab(k)][Buc(k)]
         hits == { x \in DOMAIN cur : IF CmpMod = 0 THEN x = k ELSE x % CmpMod = k % CmpMod } IN
       \* Faithful: a hit returns the last value written under exactly this key
       bad' = (bad \/ \E x \in hits : x # k \/ cur[x] # last[k])
  /\ ops' = [ops EXCEPT ![th] = @ + 1]
  /\ UNCHANGED <<slot, used, wlock, rlock, pc, last>>

\* ---- entries(): walks the sub-tables, one read lock at a time -----------------------------
EntriesStart(th) ==
  /\ pc[th].st = "idle" /\ ops[th] < MaxOps
  /\ pc' = [pc EXCEPT ![th] = [Idle EXCEPT !.st = "sum", !.t = 0, !.acc = 0]]
  /\ UNCHANGED <<slot, used, wlock, rlock, ops, last, bad>>
EntriesStep(th) ==
  /\ pc[th].st = "sum" /\ pc[th].t < T /\ wlock[pc[th].t] = 0
  /\ pc' = [pc EXCEPT ![th].acc = @ + used[pc[th].t], ![th].t = @ + 1]
  /\ UNCHANGED <<slot, used, wlock, rlock, ops, last, bad>>
EntriesEnd(th) ==
  /\ pc[th].st = "sum" /\ pc[th].t = T
  /\ bad' = (bad \/ pc[th].acc > T * B * S)       \* never above capacity, even though not a snapshot
  /\ pc' = [pc EXCEPT ![th] = Idle]
  /\ ops' = [ops EXCEPT ![th] = @ + 1]
  /\ UNCHANGED <<slot, used, wlock, rlock, last>>

Next ==
  \/ \E th \in Threads, k \in Keys, v \in Vals : InsertWrite(th, k, v)
  \/ \E th \in Threads : InsertBump(th) \/ EntriesStart(th) \/ EntriesStep(th) \/ EntriesEnd(th)
  \/ \E th \in Threads, k \in Keys : Find(th, k)
Spec == Init /\ [][Next]_vars /\ WF_vars(Next)

\* ---- properties ----------------------------------------------------------------------------
Faithful == ~bad
\* the counter equals the occupied slots whenever no insert is between its two steps
CountOk == \A t \in 0..(T - 1) : wlock[t] = 0 => used[t] = Count(t)
Bounded == \A t \in 0..(T - 1) : used[t] <= B * S /\ \A b \in 0..(B - 1) : Cardinality(DOMAIN slot[t][b]) <= S
Routing == \A t \in 0..(T - 1), b \in 0..(B - 1) : \A k \in DOMAIN slot[t][b] : Tab(k) = t /\ Buc(k) = b
\* a present key always carries the last value written under it (so a later find is faithful)
Fresh == \A t \in 0..(T - 1), b \in 0..(B - 1) : \A k \in DOMAIN slot[t][b] : wlock[t] = 0 => slot[t][b][k] = last[k]
\* Retained: a key leaves its bucket only when another key is written into that (full) bucket
Retained == [][\A t \in 0..(T - 1), b \in 0..(B - 1) :
                 (DOMAIN slot[t][b] \ DOMAIN slot'[t][b]) # {} =>
                   /\ Cardinality(DOMAIN slot[t][b]) = S
                   /\ Cardinality(DOMAIN slot'[t][b] \ DOMAIN slot[t][b]) = 1]_vars
Progress == \A th \in Threads : <>(ops[th] = MaxOps)
=============================================================================
