------------------------------ MODULE SearchTrace ------------------------------
(***************************************************************************)
(* Black-box trace validation of searches (C03, C04, C06, C17, C19):       *)
(* what the real searcher reported, judged by the rules (Chess.tla) and by *)
(* TLC-checked tablebases (TbCheck.tla) for the families K+R v K, K+Q v K. *)
(* Only property constraints live here; the algorithmic model of the       *)
(* searcher is Search.tla.                                                 *)
(***************************************************************************)
EXTENDS ChessText, Json, IOUtils, TLCExt

Rec == ndJsonDeserialize(IOEnv.TRACE)
UseTb == "TBR" \in DOMAIN IOEnv
TBR == IF UseTb THEN JsonDeserialize(IOEnv.TBR).tb ELSE <<>>
TBQ == IF UseTb THEN JsonDeserialize(IOEnv.TBQ).tb ELSE <<>>
HangMs == IF "HANG_MS" \in DOMAIN IOEnv THEN atoi(IOEnv.HANG_MS) ELSE 20000

VARIABLES l, cur
tvars == <<pos, l, cur>>
ToSetOf(seq) == { seq[i] : i \in 1..Len(seq) }
Norm(p) == [board |-> p.board, stm |-> p.stm, castle |-> ToSetOf(p.castle), ep |-> p.ep, half |-> p.half, full |-> p.full]
Diag(prop, ok, what) == IF ok THEN TRUE ELSE PrintT(<<"DIAG", ToJson([prop |-> prop, l |-> l, what |-> what])>>)
IsEvent(e) == l <= Len(Rec) /\ Rec[l].ev = e /\ l' = l + 1
Ident(p) == <<p.board, p.stm, p.castle>>

\* ---- tablebase access (families K+X v K, either colour attacking) ---------------------
Men(b) == { s \in Squares : b[s] # Empty }
Attackers(b) == { s \in Squares : b[s] \in {"R", "Q", "r", "q"} }
InFamily(p) == UseTb /\ Cardinality(Men(p.board)) = 3 /\ CountPc(p.board, "K") = 1 /\ CountPc(p.board, "k") = 1 /\ Cardinality(Attackers(p.board)) = 1
KvK(p) == Cardinality(Men(p.board)) = 2
AttColor(p) == ColorOf(p.board[CHOOSE s \in Attackers(p.board) : TRUE])
WhiteAtt(p) == IF AttColor(p) = "w" THEN p ELSE Mirror(p)
Idx(p) == LET b == p.board
              wk == (CHOOSE s \in Squares : b[s] = "K") - 1
              bk == (CHOOSE s \in Squares : b[s] = "k") - 1
              x == (CHOOSE s \in Attackers(b) : TRUE) - 1
          IN 1 + (IF p.stm = "w" THEN 0 ELSE 262144) + wk * 4096 + bk * 64 + x
\* code: 0 outside, 1 draw, n+2 decided in n plies (attacker to move: win; defender to move: loss)
Code(p) == IF KvK(p) THEN 1 ELSE
           LET q == WhiteAtt(p) IN IF KindOf(q.board[CHOOSE s \in Attackers(q.board) : TRUE]) = "R" THEN TBR[Idx(q)] ELSE TBQ[Idx(q)]
AttackerToMove(p) == ~KvK(p) /\ p.stm = AttColor(p)
WonForMover(p) == AttackerToMove(p) /\ Code(p) >= 3          \* side to move mates in Code-2 plies
LostForMover(p) == ~KvK(p) /\ ~AttackerToMove(p) /\ Code(p) >= 2   \* side to move is mated in Code-2 plies
Dist(p) == Code(p) - 2

\* ---- line legality ---------------------------------------------------------------------
RECURSIVE FirstBad(_, _, _)
FirstBad(p, line, i) == IF i > Len(line) THEN 0 ELSE IF line[i] \notin Legal(p) THEN i ELSE FirstBad(Apply(p, line[i]), line, i + 1)

NoSearch == [active |-> FALSE]
TSearchStart ==
  /\ IsEvent("SearchStart")
  /\ LET e == Rec[l] p == Norm(e.root) dom == LegalPosition(p) IN
       /\ pos' = p
       /\ cur' = [active |-> TRUE, dom |-> dom, open |-> (IF dom THEN Legal(p) # {} ELSE FALSE), fam |-> (dom /\ InFamily(p)),
                  depth |-> e.depth, fresh |-> e.fresh, cancelled |-> (e.cancel_at >= 0 \/ e.stop_after_ms >= 0),
                  hist |-> { Ident(Norm(e.history[i])) : i \in 1..Len(e.history) }, n |-> 0, mate |-> FALSE, first |-> e.root, firstOk |-> FALSE, fen |-> ToFen(p),
                  workers |-> e.workers, seed |-> e.seed, tag |-> e.tag, observed |-> ~e.drop_receiver,
                  \* every legal move of the root re-enters a recorded position: each such line is a draw, so is the root
                  allHist |-> (IF dom /\ Len(e.history) > 0 THEN (Legal(p) # {} /\ \A m \in Legal(p) : Ident(Apply(p, m)) \in { Ident(Norm(e.history[i])) : i \in 1..Len(e.history) }) ELSE FALSE)]

TReport ==
  /\ IsEvent("Report")
  /\ LET e == Rec[l] IN
       /\ (IF ~cur.dom THEN TRUE ELSE
           /\ Diag("C04", cur.open, [kind |-> "a move was reported for a position without legal moves", pos |-> cur.fen])
           /\ Diag("C03", Len(e.line) > 0, [kind |-> "empty line reported", pos |-> cur.fen])
           /\ Diag("C17", ~cur.allHist \/ e.eval = 0, [kind |-> "every move of the root re-enters a recorded position but the line is not valued as a draw", pos |-> cur.fen, eval |-> e.eval, seed |-> cur.seed, workers |-> cur.workers, tag |-> cur.tag])
           /\ (IF ~cur.open \/ Len(e.line) = 0 THEN TRUE ELSE
                LET bad == FirstBad(pos, e.line, 1) IN
                /\ Diag("C03", bad = 0, [kind |-> "reported line is not legal", pos |-> cur.fen, index |-> bad, mv |-> Lan(e.line[IF bad = 0 THEN 1 ELSE bad]),
                                          line |-> [i \in 1..Len(e.line) |-> Lan(e.line[i])], seed |-> cur.seed, workers |-> cur.workers, tag |-> cur.tag])
                /\ (IF ~(cur.fam /\ e.terminal /\ e.eval > 0 /\ e.line[1] \in Legal(pos)) THEN TRUE ELSE
                     /\ Diag("C06", WonForMover(pos), [kind |-> "mate claimed but the side to move has no forced mate", pos |-> cur.fen, eval |-> e.eval, seed |-> cur.seed, workers |-> cur.workers])
                     /\ Diag("C06", LostForMover(Apply(pos, e.line[1])), [kind |-> "mate claimed but the reported first move does not keep the forced mate", pos |-> cur.fen, mv |-> Lan(e.line[1]), seed |-> cur.seed, workers |-> cur.workers]))))
       /\ cur' = [cur EXCEPT !.n = cur.n + 1, !.mate = (e.terminal /\ e.eval > 0),
                             !.firstOk = (cur.dom /\ cur.open /\ Len(e.line) > 0 /\ (IF Len(e.line) > 0 THEN e.line[1] \in Legal(pos) ELSE FALSE)),
                             !.first = (IF Len(e.line) > 0 THEN e.line[1] ELSE cur.first)]
  /\ UNCHANGED pos

TSkip == /\ l <= Len(Rec) /\ Rec[l].ev \in {"Progress", "Warning"} /\ l' = l + 1 /\ UNCHANGED <<pos, cur>>

TSearchEnd ==
  /\ IsEvent("SearchEnd")
  /\ LET e == Rec[l] IN
       /\ Diag("C04", e.status = "ok", [kind |-> "search did not end normally", pos |-> cur.fen, status |-> e.status, msg |-> (IF "msg" \in DOMAIN e THEN e.msg ELSE ""), seed |-> cur.seed, workers |-> cur.workers, tag |-> cur.tag])
       /\ Diag("C04", e.ms_after_cancel <= HangMs, [kind |-> "search did not return within the hang-detector limit after Stop", pos |-> cur.fen, ms |-> e.ms_after_cancel, tag |-> cur.tag])
       /\ (IF ~(cur.dom /\ e.status = "ok") THEN TRUE ELSE
           /\ Diag("C17", ~cur.allHist \/ cur.n >= 1, [kind |-> "root whose every move re-enters a recorded position was treated as having no moves (no report)", pos |-> cur.fen, seed |-> cur.seed, tag |-> cur.tag])
           /\ Diag("C03", (cur.open /\ cur.observed) => cur.n >= 1, [kind |-> "search of a position with legal moves ended without any report", pos |-> cur.fen, seed |-> cur.seed, tag |-> cur.tag])
           /\ (IF ~(cur.fam /\ ~cur.cancelled /\ cur.depth >= 1) THEN TRUE ELSE
                \* completeness half of C06: fresh memory, no history, forced mate within the depth limit
                /\ (IF ~(cur.fresh /\ cur.hist = {} /\ WonForMover(pos) /\ Dist(pos) <= cur.depth) THEN TRUE ELSE
                      Diag("C06", cur.mate /\ cur.firstOk, [kind |-> "forced mate within the depth limit not reported", pos |-> cur.fen, plies |-> Dist(pos), depth |-> cur.depth, seed |-> cur.seed, workers |-> cur.workers]))
                \* C17: some mate-preserving first move avoids the recorded positions and fits the depth
                /\ (IF ~(cur.hist # {} /\ WonForMover(pos)
                         /\ \E m \in Legal(pos) : Ident(Apply(pos, m)) \notin cur.hist /\ LostForMover(Apply(pos, m)) /\ Dist(Apply(pos, m)) + 1 <= cur.depth) THEN TRUE ELSE
                      /\ Diag("C17", cur.mate, [kind |-> "forced mate avoiding the recorded position not reported", pos |-> cur.fen, depth |-> cur.depth, seed |-> cur.seed, workers |-> cur.workers, tag |-> cur.tag])
                      /\ (IF ~(cur.mate /\ cur.firstOk) THEN TRUE ELSE
                            Diag("C17", Ident(Apply(pos, cur.first)) \notin cur.hist, [kind |-> "search chose the move into a recorded position", pos |-> cur.fen, mv |-> Lan(cur.first), seed |-> cur.seed, workers |-> cur.workers, tag |-> cur.tag])))))
       \* C17 on any root (no tablebase needed): a line whose first move enters a recorded position is a draw, so a winning
       \* terminal evaluation cannot come with such a first move (single worker: evaluation and move come from the same worker)
       /\ (IF ~(cur.dom /\ e.status = "ok" /\ cur.hist # {} /\ cur.mate /\ cur.firstOk /\ ~cur.cancelled /\ cur.workers = 1) THEN TRUE ELSE
             Diag("C17", Ident(Apply(pos, cur.first)) \notin cur.hist,
                  [kind |-> "winning evaluation reported with a first move into a recorded position", pos |-> cur.fen, mv |-> Lan(cur.first), seed |-> cur.seed, workers |-> cur.workers, tag |-> cur.tag]))
       /\ cur' = [cur EXCEPT !.active = FALSE]
  /\ UNCHANGED pos

\* C19: the same search run three times; the three event sequences must be identical
TRepro ==
  /\ IsEvent("Repro")
  /\ LET e == Rec[l]
         RECURSIVE FirstDiff(_, _, _)
         FirstDiff(a, b, i) == IF i > Len(a) /\ i > Len(b) THEN 0 ELSE IF i > Len(a) \/ i > Len(b) THEN i ELSE IF a[i] # b[i] THEN i ELSE FirstDiff(a, b, i + 1)
     IN /\ Diag("C19", FirstDiff(e.a, e.b, 1) = 0, [kind |-> "second run in the same process differs", fen |-> e.fen, seed |-> e.seed, depth |-> e.depth, index |-> FirstDiff(e.a, e.b, 1)])
        /\ Diag("C19", FirstDiff(e.a, e.c, 1) = 0, [kind |-> "run in another process differs", fen |-> e.fen, seed |-> e.seed, depth |-> e.depth, index |-> FirstDiff(e.a, e.c, 1)])
        /\ Diag("C19", Len(e.a) > 0, [kind |-> "TOOL: empty run", fen |-> e.fen])
        \* the premise under which the public entry point is in the property's range (Search.tla: Workers(d) = 1 for d < 3)
        /\ Diag("DRIFT", e.api # "public" \/ e.shallow_workers <= 1, [kind |-> "public entry point ran an iteration below depth 3 with more than one worker", fen |-> e.fen, depth |-> e.depth, workers |-> e.shallow_workers])
  /\ UNCHANGED <<pos, cur>>

\* C18 below the front end: what `ucinewgame` does to the searcher is to hand the next search no memory. A search started that
\* way after other searches ran in the process must be the search a fresh process runs (same seed): anything else means the
\* searcher keeps state outside the memory that ucinewgame drops.
TNewGame ==
  /\ IsEvent("NewGame")
  /\ LET e == Rec[l]
         RECURSIVE FirstDiff2(_, _, _)
         FirstDiff2(a, b, i) == IF i > Len(a) /\ i > Len(b) THEN 0 ELSE IF i > Len(a) \/ i > Len(b) THEN i ELSE IF a[i] # b[i] THEN i ELSE FirstDiff2(a, b, i + 1)
     IN /\ Diag("C18", FirstDiff2(e.used, e.fresh, 1) = 0,
                 [kind |-> "a search given no memory after earlier games differs from the same search in a fresh process", fen |-> e.fen, seed |-> e.seed, depth |-> e.depth,
                  index |-> FirstDiff2(e.used, e.fresh, 1), earlier_searches |-> e.earlier])
        /\ Diag("C18", Len(e.fresh) > 0, [kind |-> "TOOL: empty run", fen |-> e.fen])
  /\ UNCHANGED <<pos, cur>>

\* `weechess evaluate`: the lines it prints (the short "Peg" spelling of ChessText.tla) must be playable from the
\* position, and a position with a legal move gets at least one line
RECURSIVE PegFollow(_, _, _)
PegFollow(p, toks, i) == IF i > Len(toks) THEN TRUE
                         ELSE \E m \in { x \in Legal(p) : Peg(x) = Concat(toks[i]) } : PegFollow(Apply(p, m), toks, i + 1)
TCliEval ==
  /\ IsEvent("CliEval")
  /\ LET e == Rec[l] p == Norm(e.pos) IN
       IF ~LegalPosition(p) THEN TRUE ELSE
       /\ Diag("C03", e.status = 0, [kind |-> "evaluate command did not exit normally", pos |-> ToFen(p), status |-> e.status])
       /\ Diag("C03", Legal(p) = {} \/ Len(e.lines) >= 1, [kind |-> "evaluate command printed no line for a position with legal moves", pos |-> ToFen(p), depth |-> e.depth])
       /\ Diag("C03", Legal(p) # {} \/ Len(e.lines) = 0, [kind |-> "evaluate command printed a line for a position without legal moves", pos |-> ToFen(p)])
       /\ \A i \in 1..Len(e.lines) :
            Diag("C03", Len(e.lines[i]) >= 1 /\ PegFollow(p, e.lines[i], 1),
                 [kind |-> "line printed by the evaluate command is empty or not playable", pos |-> ToFen(p), depth |-> e.depth, seed |-> e.seed, line |-> [j \in 1..Len(e.lines[i]) |-> Concat(e.lines[i][j])]])
  /\ UNCHANGED <<pos, cur>>

TraceInit == l = 1 /\ pos = StartPos /\ cur = NoSearch
TraceNext == TSearchStart \/ TReport \/ TSkip \/ TSearchEnd \/ TRepro \/ TCliEval \/ TNewGame
Accepted == IF TLCGet("stats").diameter - 1 = Len(Rec) THEN PrintT(<<"ACCEPTED", Len(Rec)>>)
            ELSE PrintT(<<"STUCK", TLCGet("stats").diameter, Len(Rec)>>)
=============================================================================
