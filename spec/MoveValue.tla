------------------------------ MODULE MoveValue ------------------------------
(***************************************************************************)
(* C20: the abstract move value (nine attributes) and its constructors,    *)
(* plus trace validation of the implementation's whole constructor domain. *)
(* Only attribute read-back, equality and serialisation are specified -    *)
(* not the bit layout, so a re-packing refactor does not alarm.            *)
(***************************************************************************)
EXTENDS ChessText, Json, IOUtils, TLCExt

Kinds == {"P", "N", "B", "R", "Q", "K"}
AbsDiff(a, b) == IF a >= b THEN a - b ELSE b - a
\* the six constructors as operators on abstract records
ByMoving(c, k, from, to) == [from |-> from, to |-> to, piece |-> k, color |-> c, capture |-> ".", promo |-> ".", ep |-> FALSE, castle |-> ".",
                             dbl |-> (k = "P" /\ AbsDiff(RankOf(from), RankOf(to)) = 2)]
ByCapturing(c, k, from, to, cap) == [ByMoving(c, k, from, to) EXCEPT !.capture = cap]
ByPromoting(c, k, from, to, pr) == [ByMoving(c, k, from, to) EXCEPT !.promo = pr]
ByCapturePromoting(c, k, from, to, cap, pr) == [ByMoving(c, k, from, to) EXCEPT !.capture = cap, !.promo = pr]
ByEnPassant(c, from, to) == [ByMoving(c, "P", from, to) EXCEPT !.capture = "P", !.ep = TRUE]
ByCastling(c, side) == LET k0 == IF c = "w" THEN 5 ELSE 61 IN
                       [ByMoving(c, "K", k0, IF side = "K" THEN k0 + 2 ELSE k0 - 2) EXCEPT !.castle = side]
Build(c, k, from, to, cap, pr) ==
  IF cap = "." /\ pr = "." THEN ByMoving(c, k, from, to) ELSE IF pr = "." THEN ByCapturing(c, k, from, to, cap)
  ELSE IF cap = "." THEN ByPromoting(c, k, from, to, pr) ELSE ByCapturePromoting(c, k, from, to, cap, pr)
\* text form used on the wire: MvStr plus colour; the double-step flag of a pawn "move" over more
\* than two ranks is left open (the property says nothing about such values)
Str(m, dch) == SqName(m.from) \o SqName(m.to) \o m.piece \o m.capture \o m.promo \o (IF m.ep THEN "e" ELSE "-") \o m.castle \o dch \o m.color
DblChars(m) == IF m.piece = "P" /\ AbsDiff(RankOf(m.from), RankOf(m.to)) > 2 THEN {"d", "-"} ELSE IF m.dbl THEN {"d"} ELSE {"-"}
Strs(m) == { Str(m, d) : d \in DblChars(m) }

\* ---- design-level check: constructor arguments are recoverable from the record ----------
CONSTANT SmallSquares     \* a subset of squares for the model check of the algebra itself
VARIABLE args
AlgInit == args \in { <<c, k, f, t, cap, pr>> : c \in {"w", "b"}, k \in Kinds, f \in SmallSquares, t \in SmallSquares,
                                               cap \in {".", "P", "N", "B", "R", "Q"}, pr \in {".", "N", "B", "R", "Q"} }

ReadBack == LET m == Build(args[1], args[2], args[3], args[4], args[5], args[6]) IN
            <<m.color, m.piece, m.from, m.to, m.capture, m.promo>> = args /\ ~m.ep /\ m.castle = "."

\* ---- trace validation ----------------------------------------------------------------
Rec == ndJsonDeserialize(IOEnv.TRACE)
VARIABLES l
ToSetOf(seq) == { seq[i] : i \in 1..Len(seq) }
Diag(prop, ok, what) == IF ok THEN TRUE ELSE PrintT(<<"DIAG", ToJson([prop |-> prop, l |-> l, what |-> what])>>)
IsEvent(e) == l <= Len(Rec) /\ Rec[l].ev = e /\ l' = l + 1
FlagBit(fl, b) == (fl \div b) % 2 = 1

TCtor ==
  /\ IsEvent("Ctor")
  /\ LET e == Rec[l] IN
       /\ Diag("C20", Len(e.strs) = 64 /\ Len(e.raws) = 64 /\ Len(e.flags) = 64, [kind |-> "TOOL: malformed event"])
       /\ Diag("C20", Cardinality(ToSetOf(e.raws)) = 64, [kind |-> "two destinations share one raw value", ctor |-> e.ctor, color |-> e.color, piece |-> e.piece, from |-> e.from, capture |-> e.capture, promo |-> e.promo])
       /\ \A t \in 1..64 :
            LET m == IF e.ctor = "ep" THEN ByEnPassant(e.color, e.from, t) ELSE Build(e.color, e.piece, e.from, t, e.capture, e.promo) IN
            /\ Diag("C20", e.strs[t] \in Strs(m), [kind |-> "attributes read back differ from the constructor's arguments", ctor |-> e.ctor, expected |-> Str(m, IF m.dbl THEN "d" ELSE "-"), got |-> e.strs[t]])
            /\ Diag("C20", FlagBit(e.flags[t], 1), [kind |-> "move not equal to an identically built move", mv |-> e.strs[t]])
            /\ Diag("C20", FlagBit(e.flags[t], 2), [kind |-> "a move compares equal to a move that differs from it in exactly one attribute (destination, captured piece, promotion piece, moving piece, colour or origin)", mv |-> e.strs[t]])
            /\ Diag("C20", FlagBit(e.flags[t], 4), [kind |-> "move changed by serialisation round trip", mv |-> e.strs[t]])
  /\ UNCHANGED <<pos, args>>

TCastle ==
  /\ IsEvent("Castle")
  /\ LET e == Rec[l] m == ByCastling(e.color, e.side) IN
       /\ Diag("C20", e.str = Str(m, "-"), [kind |-> "castling move attributes", expected |-> Str(m, "-"), got |-> e.str])
       /\ Diag("C20", FlagBit(e.flags, 1) /\ FlagBit(e.flags, 2) /\ FlagBit(e.flags, 4), [kind |-> "castling move equality/serialisation", mv |-> e.str, flags |-> e.flags])
  /\ UNCHANGED <<pos, args>>

AlgInitFull == AlgInit /\ pos = StartPos /\ l = 0
AlgNext == UNCHANGED <<args, pos, l>>
TraceInit == l = 1 /\ pos = StartPos /\ args = <<>>
TraceNext == TCtor \/ TCastle
Accepted == IF TLCGet("stats").diameter - 1 = Len(Rec) THEN PrintT(<<"ACCEPTED", Len(Rec)>>)
            ELSE PrintT(<<"STUCK", TLCGet("stats").diameter, Len(Rec)>>)
=============================================================================
