-------------------------------- MODULE TbCheck --------------------------------
(***************************************************************************)
(* Tablebases as checked certificates (C06, C17).  An untrusted retrograde *)
(* solver proposes, for the complete family K+X v K (X = R or Q), a value  *)
(* per position; this module states the local fix-point conditions with   *)
(* Chess.tla's Legal/Apply/InCheck.  By induction on n every Win/Loss      *)
(* label is sound, and closure of the rules makes Draw labels complete, so *)
(* a table that passes *is* the game-theoretic value.  TLC evaluates the   *)
(* condition at every one of the 2 x 64^3 index slots (sharded by king     *)
(* square); only this check is trusted, never the solver.                  *)
(***************************************************************************)
EXTENDS Chess, Json, IOUtils, TLCExt
X == IOEnv.PIECE
TB == JsonDeserialize(IOEnv.TBFILE).tb          \* tuple of 524288 codes
WKS == { atoi(IOEnv.WK0) + i : i \in 0..(atoi(IOEnv.WKN) - 1) }   \* shard: white-king squares (0-based)
Idx(p) == LET b == p.board
              wk == (CHOOSE s \in Squares : b[s] = "K") - 1
              bk == (CHOOSE s \in Squares : b[s] = "k") - 1
              x == (CHOOSE s \in Squares : b[s] = X) - 1
          IN 1 + (IF p.stm = "w" THEN 0 ELSE 262144) + wk * 4096 + bk * 64 + x
HasX(p) == \E s \in Squares : p.board[s] = X
Val(p) == IF HasX(p) THEN TB[Idx(p)] ELSE 1          \* K v K: draw
IsWin(c) == c >= 3 /\ (c - 2) % 2 = 1
IsLoss(c) == c >= 2 /\ (c - 2) % 2 = 0
Mk3(wk, bk, x, stm) == [board |-> [sq \in Squares |-> IF sq = wk THEN "K" ELSE IF sq = bk THEN "k" ELSE IF sq = x THEN X ELSE Empty],
                        stm |-> stm, castle |-> {}, ep |-> 0, half |-> 0, full |-> 1]
FamilyLegal(p, wk, bk) == bk \notin KingTo[wk] /\ ~InCheck(p.board, Other(p.stm))
Init == \E wk0 \in WKS : \E bk \in Squares \ {wk0 + 1} : \E x \in Squares \ {wk0 + 1, bk} : \E stm \in {"w", "b"} :
          pos = Mk3(wk0 + 1, bk, x, stm)
Next == UNCHANGED pos
LocalOK ==
  LET wk == CHOOSE s \in Squares : pos.board[s] = "K"
      bk == CHOOSE s \in Squares : pos.board[s] = "k"
      c == TB[Idx(pos)]
      legal == FamilyLegal(pos, wk, bk)
  IN IF ~legal THEN c = 0
     ELSE /\ c # 0
          /\ LET ms == Legal(pos)
                 sv == { Val(Apply(pos, m)) : m \in ms }
             IN /\ 0 \notin sv                                         \* closure: successors are in the table
                /\ IF pos.stm = "w"
                   THEN /\ ms # {}
                        /\ IF c = 1 THEN \A v \in sv : ~IsLoss(v)
                           ELSE /\ IsWin(c) /\ (c - 1) \in sv                       \* some successor is loss in n-1
                                /\ \A v \in sv : IsLoss(v) => v >= c - 1             \* none is a faster loss
                   ELSE IF ms = {} THEN c = (IF InCheck(pos.board, "b") THEN 2 ELSE 1)
                        ELSE IF c = 1 THEN \E v \in sv : ~IsWin(v)
                        ELSE /\ IsLoss(c) /\ c >= 4
                             /\ \A v \in sv : IsWin(v) /\ v <= c - 1
                             /\ (c - 1) \in sv
=============================================================================
