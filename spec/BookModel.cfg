CONSTANTS
 Collide = FALSE
 MaxPlies = 3
INIT Init
NEXT Next
INVARIANT BookSound
INVARIANT BookExact
CHECK_DEADLOCK FALSE
