----------------------------- MODULE UciThreads -----------------------------
(***************************************************************************)
(* The UCI front end at the grain of its threads (uci.rs Search::spawn /    *)
(* wait_cancel, searcher.rs Searcher::analyze), one action per blocking     *)
(* point:                                                                   *)
(*   M  the client loop (Client::exec): a cancelling command sends Stop on  *)
(*      the current search's control channel, joins its control thread and  *)
(*      then its writer thread before it does anything else                 *)
(*   C  the control thread of a search: waits for a Stop on the control     *)
(*      channel, sets the cancellation token, joins the search thread       *)
(*   S  the search thread: iterations (the first one cannot be interrupted),*)
(*      one report per finished iteration on the status channel, then a     *)
(*      Stop to its own control thread (`tx3.send(Stop).unwrap()`), then    *)
(*      the status channel closes                                           *)
(*   W  the writer thread: drains the status channel, prints `bestmove`     *)
(*      once the channel is closed - if it ever saw a line                  *)
(*   T  the timer thread: sends Stop on its own search's control channel at *)
(*      some moment, whether or not that search still exists                *)
(* Every search has its own pair of channels, so a timer that outlives its  *)
(* search talks to nobody.  SharedControl = TRUE models the alternative     *)
(* (one control channel for the session) as a counterexample guard.         *)
(*                                                                          *)
(* The module carries the ghost variables of Uci.tla and TLC checks that    *)
(* every behaviour of the threads is a behaviour of the command-level       *)
(* session model (`Refines`), which is the one bound to the real engine by  *)
(* UciTrace.tla.                                                            *)
(***************************************************************************)
EXTENDS Naturals, Sequences, FiniteSets, TLC
CONSTANTS Positions, MaxCmds, MaxSearches, Iters,
          SharedControl,          \* TRUE: one control channel for the whole session (counterexample guard)
          FirstInterruptible      \* TRUE: the first iteration honours the token too (counterexample guard: a search can end without a line)

Ids == 1..MaxSearches
NoArt == [has |-> FALSE, hist |-> {}]
NoSearch == [root |-> "-", st |-> "none", art |-> NoArt]
Kind(p) == IF p = "book" THEN "book" ELSE IF p = "term" THEN "term" ELSE "open"

VARIABLES pos, artifact, owed, extra, stale, fresh, n, alive,   \* as in Uci.tla
          cur,        \* id of the search the client holds (0 = none)
          nid,        \* next search id
          main,       \* [cmd, arg, phase]: phase "idle" | "joinC" | "joinW"
          root, sart, \* per search: root position and the memory it owns
          ctl,        \* per search: Stop messages waiting on its control channel
          cst,        \* control thread: "none" | "listen" | "cancel" | "join" | "done"
          sst,        \* search thread: "none" | "run" | "finish" | "exit" | "done"
          it,         \* iterations finished
          token,      \* cancellation token set
          status,     \* reports waiting on the status channel
          closed,     \* status channel closed (search thread gone)
          wst,        \* writer thread: "none" | "read" | "done"
          best,       \* writer has seen a line
          out,        \* bestmove lines printed for this search
          tst,        \* timer thread: "none" | "poll" | "done"
          panic,      \* ghost: a send that the code unwraps found its receiver gone
          foreign     \* ghost: a control thread was stopped by another search's timer
tvars == <<cur, nid, main, root, sart, ctl, cst, sst, it, token, status, closed, wst, best, out, tst, panic, foreign>>
gvars == <<pos, artifact, owed, extra, stale, fresh, n, alive>>
vars == <<gvars, tvars>>

Idle == [cmd |-> "-", arg |-> "-", phase |-> "idle"]
Chan(s) == IF SharedControl /\ cur # 0 THEN cur ELSE s      \* where a Stop for search s lands

\* ---------------------------------------------------------------- the search's threads
S_Iterate(s) ==
  /\ sst[s] = "run"
  /\ IF (it[s] > 0 \/ FirstInterruptible) /\ token[s]
     THEN sst' = [sst EXCEPT ![s] = "finish"] /\ UNCHANGED <<it, status>>          \* stop honoured between iterations
     ELSE \/ /\ it' = [it EXCEPT ![s] = @ + 1]                                      \* the iteration completes: report
             /\ status' = [status EXCEPT ![s] = IF Kind(root[s]) = "open" THEN @ + 1 ELSE @]
             /\ sst' = [sst EXCEPT ![s] = IF it[s] + 1 >= Iters \/ Kind(root[s]) = "term" THEN "finish" ELSE "run"]
          \/ /\ (it[s] > 0 \/ FirstInterruptible) /\ token[s]                       \* interrupted inside a later iteration
             /\ sst' = [sst EXCEPT ![s] = "finish"] /\ UNCHANGED <<it, status>>
  /\ UNCHANGED <<gvars, cur, nid, main, root, sart, ctl, cst, token, closed, wst, best, out, tst, panic, foreign>>

\* `tx3.send(ControlEvent::Stop).unwrap()`: the receiver is the search's own control thread
S_SendStop(s) ==
  /\ sst[s] = "finish"
  /\ sst' = [sst EXCEPT ![s] = "exit"]
  /\ IF cst[s] = "done" THEN panic' = TRUE /\ UNCHANGED ctl ELSE ctl' = [ctl EXCEPT ![s] = @ + 1] /\ UNCHANGED panic
  /\ UNCHANGED <<gvars, cur, nid, main, root, sart, cst, it, token, status, closed, wst, best, out, tst, foreign>>

S_Exit(s) ==
  /\ sst[s] = "exit"
  /\ sst' = [sst EXCEPT ![s] = "done"] /\ closed' = [closed EXCEPT ![s] = TRUE]
  /\ UNCHANGED <<gvars, cur, nid, main, root, sart, ctl, cst, it, token, status, wst, best, out, tst, panic, foreign>>

C_Recv(s) ==
  /\ cst[s] = "listen" /\ ctl[s] > 0
  /\ ctl' = [ctl EXCEPT ![s] = @ - 1] /\ cst' = [cst EXCEPT ![s] = "cancel"]
  /\ UNCHANGED <<gvars, cur, nid, main, root, sart, sst, it, token, status, closed, wst, best, out, tst, panic, foreign>>
C_Cancel(s) ==
  /\ cst[s] = "cancel"
  /\ token' = [token EXCEPT ![s] = TRUE] /\ cst' = [cst EXCEPT ![s] = "join"]
  /\ UNCHANGED <<gvars, cur, nid, main, root, sart, ctl, sst, it, status, closed, wst, best, out, tst, panic, foreign>>
C_Join(s) ==
  /\ cst[s] = "join" /\ sst[s] = "done"
  /\ cst' = [cst EXCEPT ![s] = "done"]
  /\ UNCHANGED <<gvars, cur, nid, main, root, sart, ctl, sst, it, token, status, closed, wst, best, out, tst, panic, foreign>>

W_Recv(s) ==
  /\ wst[s] = "read" /\ status[s] > 0
  /\ status' = [status EXCEPT ![s] = @ - 1] /\ best' = [best EXCEPT ![s] = TRUE]
  /\ UNCHANGED <<gvars, cur, nid, main, root, sart, ctl, cst, sst, it, token, closed, wst, out, tst, panic, foreign>>
\* channel empty and closed: print the bestmove (if a line was ever reported) and end
W_End(s) ==
  /\ wst[s] = "read" /\ status[s] = 0 /\ closed[s]
  /\ wst' = [wst EXCEPT ![s] = "done"]
  /\ IF best[s]
     THEN /\ out' = [out EXCEPT ![s] = @ + 1]
          /\ IF owed > 0 THEN owed' = owed - 1 /\ extra' = extra ELSE owed' = owed /\ extra' = TRUE
     ELSE UNCHANGED <<out, owed, extra>>
  /\ UNCHANGED <<pos, artifact, stale, fresh, n, alive, cur, nid, main, root, sart, ctl, cst, sst, it, token, status, closed, best, tst, panic, foreign>>

\* the timer's time is up (any moment): `_ = timer_stop.send(Stop)`, errors ignored
T_Fire(s) ==
  /\ tst[s] = "poll"
  /\ tst' = [tst EXCEPT ![s] = "done"]
  /\ LET c == Chan(s) IN
       IF cst[c] = "done" THEN UNCHANGED <<ctl, foreign>>
       ELSE /\ ctl' = [ctl EXCEPT ![c] = @ + 1]
            /\ foreign' = (foreign \/ (c # s /\ cst[c] = "listen"))
  /\ UNCHANGED <<gvars, cur, nid, main, root, sart, cst, sst, it, token, status, closed, wst, best, out, panic>>

\* ---------------------------------------------------------------- the client loop
Cancels(c) == c \in {"go", "stop", "position", "ucinewgame", "quit"}
Cmds == {"go", "stop", "ucinewgame", "isready", "garbage", "quit"}

\* what the command does once no search is held any more (the step Uci.tla takes)
NoSpawn == UNCHANGED <<nid, root, sart, cst, sst, wst, tst>>
Complete(c, arg, a) ==
  /\ main' = Idle
  /\ n' = IF c = "quit" THEN n ELSE n + 1
  /\ UNCHANGED <<ctl, it, token, status, closed, best, out, extra, panic, foreign>>
  /\ CASE c = "go" ->
            IF Kind(pos) = "book"
            THEN /\ artifact' = a /\ cur' = 0 /\ NoSpawn /\ UNCHANGED <<pos, stale, fresh, alive, owed>>      \* answered at once from the book
            ELSE /\ cur' = nid /\ nid' = nid + 1 /\ artifact' = NoArt
                 /\ root' = [root EXCEPT ![nid] = pos]
                 /\ sart' = [sart EXCEPT ![nid] = [has |-> TRUE, hist |-> a.hist \cup {pos}]]
                 /\ cst' = [cst EXCEPT ![nid] = "listen"] /\ sst' = [sst EXCEPT ![nid] = "run"]
                 /\ wst' = [wst EXCEPT ![nid] = "read"] /\ tst' = [tst EXCEPT ![nid] = "poll"]
                 /\ stale' = (stale \/ (fresh /\ a.has)) /\ fresh' = FALSE
                 /\ owed' = (IF Kind(pos) = "open" THEN owed + 1 ELSE owed)
                 /\ UNCHANGED <<pos, alive>>
       [] c = "stop" -> /\ artifact' = a /\ cur' = 0 /\ NoSpawn /\ UNCHANGED <<pos, stale, fresh, alive, owed>>
       [] c = "position" -> /\ artifact' = a /\ cur' = 0 /\ pos' = arg /\ NoSpawn /\ UNCHANGED <<stale, fresh, alive, owed>>
       [] c = "ucinewgame" -> /\ artifact' = NoArt /\ cur' = 0 /\ fresh' = TRUE /\ NoSpawn /\ UNCHANGED <<pos, stale, alive, owed>>
       [] c = "quit" -> /\ artifact' = a /\ cur' = 0 /\ alive' = FALSE /\ NoSpawn /\ UNCHANGED <<pos, stale, fresh, owed>>
       [] OTHER -> NoSpawn /\ UNCHANGED <<pos, artifact, stale, fresh, alive, owed, cur>>

M_Begin(c, arg) ==
  /\ alive /\ main.phase = "idle"
  /\ (c = "quit" \/ n < MaxCmds)
  /\ ((c = "go" /\ Kind(pos) # "book") => nid <= MaxSearches)
  /\ IF Cancels(c) /\ cur # 0
     THEN \* wait_cancel, first half: `_ = self.control.send(Stop)`
          /\ main' = [cmd |-> c, arg |-> arg, phase |-> "joinC"]
          /\ ctl' = [ctl EXCEPT ![cur] = IF cst[cur] = "done" THEN @ ELSE @ + 1]
          /\ UNCHANGED <<gvars, cur, nid, root, sart, cst, sst, it, token, status, closed, wst, best, out, tst, panic, foreign>>
     ELSE Complete(c, arg, artifact)
\* `self.search_handle.join()`: the control thread hands over the memory
M_JoinC ==
  /\ main.phase = "joinC" /\ cst[cur] = "done"
  /\ main' = [main EXCEPT !.phase = "joinW"]
  /\ UNCHANGED <<gvars, cur, nid, root, sart, ctl, cst, sst, it, token, status, closed, wst, best, out, tst, panic, foreign>>
\* `self.write_handle.join()`, then the command proper
M_JoinW ==
  /\ main.phase = "joinW" /\ wst[cur] = "done"
  /\ Complete(main.cmd, main.arg, IF main.cmd = "ucinewgame" THEN artifact ELSE sart[cur])

Init ==
  /\ pos \in Positions /\ artifact = NoArt /\ owed = 0 /\ extra = FALSE /\ stale = FALSE /\ fresh = TRUE /\ n = 0 /\ alive = TRUE
  /\ cur = 0 /\ nid = 1 /\ main = Idle
  /\ root = [s \in Ids |-> "-"] /\ sart = [s \in Ids |-> NoArt] /\ ctl = [s \in Ids |-> 0]
  /\ cst = [s \in Ids |-> "none"] /\ sst = [s \in Ids |-> "none"] /\ it = [s \in Ids |-> 0] /\ token = [s \in Ids |-> FALSE]
  /\ status = [s \in Ids |-> 0] /\ closed = [s \in Ids |-> FALSE] /\ wst = [s \in Ids |-> "none"] /\ best = [s \in Ids |-> FALSE]
  /\ out = [s \in Ids |-> 0] /\ tst = [s \in Ids |-> "none"] /\ panic = FALSE /\ foreign = FALSE

Threads == \E s \in Ids : S_Iterate(s) \/ S_SendStop(s) \/ S_Exit(s) \/ C_Recv(s) \/ C_Cancel(s) \/ C_Join(s) \/ W_Recv(s) \/ W_End(s) \/ T_Fire(s)
Client == \/ \E c \in Cmds : M_Begin(c, "-")
          \/ \E p \in Positions : M_Begin("position", p)
          \/ M_JoinC \/ M_JoinW
Next == Threads \/ Client \/ (~alive /\ UNCHANGED vars)
Spec == Init /\ [][Next]_vars
FairSpec == Spec /\ \A s \in Ids : WF_vars(S_Iterate(s)) /\ WF_vars(S_SendStop(s)) /\ WF_vars(S_Exit(s)) /\ WF_vars(C_Recv(s)) /\ WF_vars(C_Cancel(s))
                                   /\ WF_vars(C_Join(s)) /\ WF_vars(W_Recv(s)) /\ WF_vars(W_End(s)) /\ WF_vars(M_JoinC) /\ WF_vars(M_JoinW)

\* ---------------------------------------------------------------- properties
NoPanic == ~panic
OnlyOwnTimer == ~foreign
AtMostOneSearching == Cardinality({ s \in Ids : sst[s] \in {"run", "finish", "exit"} }) <= 1
BestmoveAtMostOnce == \A s \in Ids : out[s] <= 1
\* when the client lets go of a search, its bestmove has been printed (open root) and nothing of it is left running
CollectedMeansAnswered == \A s \in Ids : (cst[s] # "none" /\ s # cur) => /\ sst[s] = "done" /\ cst[s] = "done" /\ wst[s] = "done"
                                                                          /\ (Kind(root[s]) = "open" => out[s] = 1)
                                                                          /\ (Kind(root[s]) = "term" => out[s] = 0)
NoUnsolicitedBestmove == ~extra
AnsweredAtBarrier == (cur = 0 /\ main.phase = "idle") => owed = 0
\* wait_cancel always returns
CancelReturns == (main.phase # "idle") ~> (main.phase = "idle")

\* the command-level model the transcripts are validated against
U == INSTANCE Uci WITH PinnedNewGame <- FALSE,
       search <- IF cur = 0 THEN NoSearch ELSE [root |-> root[cur], st |-> IF wst[cur] = "done" THEN "fin" ELSE "run", art |-> sart[cur]]
Refines == U!Init /\ [][U!Next]_(U!vars)
=============================================================================
