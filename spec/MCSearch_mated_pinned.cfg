CONSTANTS
 GAME = "mated"
 Collide = FALSE
 PriorTables = FALSE
 Nodes <- GNodes
 Root = "R"
 MoveIds <- GMoveIds
 Moves <- GMoves
 Child <- GChild
 Static <- GStatic
 Status <- GStatus
 Key <- GKey
 History = {}
 Workers = 1
 MaxIter = 3
 MinPar = 1
 Orders <- GOrdersOne
 K = 4
 LoopChecksFlag = TRUE
 AssertLine = TRUE
 CapOrder <- GCap
 SlotOf <- GSlot
 TagCheck = TRUE
 TinyTable = FALSE
 StopAllowed = FALSE
INIT MCInit
NEXT Next
CHECK_DEADLOCK FALSE
INVARIANT NoPanic
