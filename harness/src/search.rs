//! Search drivers: runs scripted sessions of searches on the real searcher (hooked synchronous
//! entry point with small artifacts, or the public threaded API) and logs what it reports.
use serde_json::{json, Value};
use std::io::BufRead;
use std::time::Instant;
use weechess_core::*;
use weechess_engine::eval::Evaluator;
use weechess_engine::searcher::{verif, ControlEvent, SearchArtifact, Searcher, StatusEvent};
use wv::*;

fn status_event_json(e: &StatusEvent) -> Value {
    match e {
        StatusEvent::BestMove { line, evaluation } => json!({"ev": "Report", "eval": i32::from(*evaluation), "terminal": evaluation.is_terminal(),
            "line": line.iter().map(mv_json).collect::<Vec<_>>()}),
        StatusEvent::Progress { depth, nodes_searched, .. } => json!({"ev": "Progress", "depth": depth, "nodes": nodes_searched}),
        StatusEvent::Warning { message, .. } => json!({"ev": "Warning", "message": message}),
    }
}

static DEADLINE_MS: std::sync::atomic::AtomicU64 = std::sync::atomic::AtomicU64::new(u64::MAX);

/// Exits the process with status 7 when a search overruns its deadline (the orchestrator then records a
/// timeout for the dangling search and resumes with the next session).
fn start_watchdog(t0: Instant) {
    std::thread::spawn(move || loop {
        std::thread::sleep(std::time::Duration::from_millis(50));
        let d = DEADLINE_MS.load(std::sync::atomic::Ordering::SeqCst);
        if d != u64::MAX && t0.elapsed().as_millis() as u64 > d {
            std::process::exit(7);
        }
    });
}

pub fn run(args: &Args) {
    quiet_panics();
    let wd0 = Instant::now();
    start_watchdog(wd0);
    let _ = rayon::ThreadPoolBuilder::new().num_threads(args.num("--pool", 40)).build_global();
    let script = args.get("--script").expect("--script");
    let mut out = Out::new(args.get("--out"));
    let skip: usize = args.num("--skip", 0);
    let file = std::fs::File::open(script).expect("script");
    let mut n_search = 0usize;
    for (li, line) in std::io::BufReader::new(file).lines().enumerate() {
        let line = line.unwrap();
        if line.trim().is_empty() || li < skip { continue; }
        let sess: Value = serde_json::from_str(&line).expect("script line");
        let sid = sess["id"].clone();
        let mut artifact: Option<SearchArtifact> = None;
        let mut recorded: Vec<State> = vec![];
        let mut last_root: Option<State> = None;
        let mut last_line: Vec<Move> = vec![];
        for (si, st) in sess["steps"].as_array().unwrap().iter().enumerate() {
            // "follow": k - the game goes on along the line the previous search reported (k plies of it), as when the opponent
            // answers as expected; without such a line the session ends
            let state = if let Some(k) = st["follow"].as_u64() {
                let (Some(r), true) = (last_root.as_ref(), last_line.len() >= k as usize) else { break };
                let mut s2 = r.clone();
                let mut okay = true;
                for m in last_line.iter().take(k as usize) {
                    match State::by_performing_move(&s2, m) { Ok(n) => s2 = n, Err(_) => { okay = false; break; } }
                }
                if !okay || MoveGenerator::compute_legal_moves(&s2).moves().is_empty() { break; }
                s2
            } else { state_of_fen(st["fen"].as_str().unwrap()) };
            let st_fen = fen_of(&state);
            let depth = st["depth"].as_u64().map(|d| d as usize);
            let seed = st["seed"].as_u64().unwrap_or(1);
            let workers = st["workers"].as_u64().map(|w| w as usize);
            let reuse = st["reuse"].as_bool().unwrap_or(false);
            let wb = st["wb"].as_bool().unwrap_or(false);
            let ttlog = st["ttlog"].as_bool().unwrap_or(false);
            let cancel_at = st["cancel_at"].as_u64().map(|n| n as usize);
            let hist: Vec<State> = st["history"].as_array().map(|a| a.iter().map(|f| state_of_fen(f.as_str().unwrap())).collect()).unwrap_or_default();
            // "a fresh search memory": nothing of an earlier search is kept alive either
            let mut art = if reuse { artifact.take() } else { artifact = None; None };
            let fresh = art.is_none();
            if fresh { recorded.clear(); }
            if art.is_none() {
                art = Some(verif::new_artifact(st["table_seed"].as_u64().unwrap_or(seed ^ 0x5bd1e995), st["tables"].as_u64().unwrap_or(8) as usize, st["buckets"].as_u64().unwrap_or(1024) as usize));
            }
            let mut a = art.unwrap();
            for h in hist.iter() { verif::record_history(&mut a, h); recorded.push(h.clone()); }
            let hist: Vec<State> = recorded.iter().filter(|h| **h != state).cloned().collect();
            // keys the searcher's history holds during this search: everything recorded so far plus the root itself
            let mut hist_hashes: Vec<String> = recorded.iter().map(|h| format!("{:016x}", verif::artifact_hash(&a, h))).collect();
            hist_hashes.push(format!("{:016x}", verif::artifact_hash(&a, &state)));

            out.ev(json!({"ev": "SearchStart", "sid": sid, "step": si, "root": pos_json(&state), "fen": st_fen, "depth": depth.map(|d| d as i64).unwrap_or(-1), "seed": seed.to_string(),
                          "workers": workers.unwrap_or(0), "fresh": fresh, "history": hist.iter().map(pos_json).collect::<Vec<_>>(), "history_keys": hist_hashes,
                          "root_key": format!("{:016x}", verif::artifact_hash(&a, &state)),
                          "history_len_before": verif::history_len(&a), "entries_before": verif::table_entries(&a), "cancel_at": cancel_at.map(|c| c as i64).unwrap_or(-1),
                          "tag": st["tag"].as_str().unwrap_or(""), "api": "hook", "stop_after_ms": -1, "drop_receiver": false,
                          "mate": (0..=40usize).map(|k| i32::from(weechess_engine::eval::Evaluation::mate_in_ply(k))).collect::<Vec<_>>()}));
            out.flush();
            if let Some(s) = st["sched"].as_array() { verif::install_schedule(s[0].as_u64().unwrap(), s[1].as_f64().unwrap_or(0.5)); }
            verif::set_logging(ttlog || wb, wb);
            verif::set_qs_sampling(st["qs_every"].as_u64().unwrap_or(0) as usize, st["qs_budget"].as_u64().unwrap_or(0) as usize);
            let _ = verif::take_log();
            let t0 = Instant::now();
            let mut events: Vec<Value> = vec![];
            let mut line_seen: Vec<Move> = vec![];
            let max_ms = st["max_ms"].as_u64().unwrap_or(if cancel_at.is_some() { 30_000 } else { 600_000 });
            DEADLINE_MS.store(wd0.elapsed().as_millis() as u64 + max_ms, std::sync::atomic::Ordering::SeqCst);
            let res = guarded(std::panic::AssertUnwindSafe(|| {
                verif::analyze_sync(state.clone(), seed, depth, workers, Some(a), cancel_at, &mut |e| {
                    if let StatusEvent::BestMove { line, .. } = &e { line_seen = line.clone(); }
                    if events.len() < 5000 { events.push(status_event_json(&e)) }
                })
            }));
            DEADLINE_MS.store(u64::MAX, std::sync::atomic::Ordering::SeqCst);
            let ms = t0.elapsed().as_millis() as u64;
            let sched = verif::clear_schedule();
            verif::set_logging(false, false);
            let log = verif::take_log();
            for e in events.drain(..) { out.ev(e); }
            if wb || ttlog { for l in log { out.raw(&l); } }
            n_search += 1;
            match res {
                Ok(o) => {
                    out.ev(json!({"ev": "SearchEnd", "status": "ok", "nodes": o.nodes, "nodes_after_cancel": o.nodes_after_cancel, "ms": ms, "ms_after_cancel": o.ms_after_cancel.map(|m| m as i64).unwrap_or(-1),
                                  "history_len": verif::history_len(&o.artifact), "entries": verif::table_entries(&o.artifact),
                                  "sched": {"grants": sched.0, "switches": sched.1, "degraded": sched.2}}));
                    artifact = Some(o.artifact);
                    recorded.push(state.clone());
                    last_root = Some(state.clone());
                    last_line = line_seen.clone();
                }
                Err(msg) => {
                    out.ev(json!({"ev": "SearchEnd", "status": "panic", "msg": msg, "ms": ms, "ms_after_cancel": -1, "nodes": 0, "nodes_after_cancel": 0, "history_len": 0, "entries": 0,
                                  "sched": {"grants": sched.0, "switches": sched.1, "degraded": sched.2}}));
                    artifact = None;
                }
            }
            out.flush();
        }
    }
    out.finish();
    println!("{}", json!({"searches": n_search}));
}

/// Public threaded API: Searcher::analyze with Stop at a wall-clock instant, receiver kept or dropped.
pub fn public(args: &Args) {
    quiet_panics();
    let script = args.get("--script").expect("--script");
    let mut out = Out::new(args.get("--out"));
    let file = std::fs::File::open(script).expect("script");
    let mut artifact: Option<SearchArtifact> = None;
    let mut n = 0;
    for line in std::io::BufReader::new(file).lines() {
        let line = line.unwrap();
        if line.trim().is_empty() { continue; }
        let st: Value = serde_json::from_str(&line).unwrap();
        let state = state_of_fen(st["fen"].as_str().unwrap());
        let depth = st["depth"].as_u64().map(|d| d as usize);
        let seed = st["seed"].as_u64().unwrap_or(1);
        let stop_ms = st["stop_after_ms"].as_u64();
        let stops = st["stops"].as_u64().unwrap_or(1);
        let drop_rx = st["drop_receiver"].as_bool().unwrap_or(false);
        let reuse = st["reuse"].as_bool().unwrap_or(true);
        let prev = if reuse { artifact.take() } else { artifact = None; None };
        out.ev(json!({"ev": "SearchStart", "sid": st["id"], "step": 0, "root": pos_json(&state), "fen": st["fen"], "depth": depth.map(|d| d as i64).unwrap_or(-1), "seed": seed.to_string(), "workers": 0,
                      "fresh": prev.is_none(), "history": [], "history_keys": [], "root_key": "", "history_len_before": 0, "entries_before": 0,
                      "cancel_at": -1, "tag": st["tag"].as_str().unwrap_or(""), "api": "public", "stop_after_ms": stop_ms.map(|c| c as i64).unwrap_or(-1), "drop_receiver": drop_rx}));
        out.flush();
        // an unrelated, unbounded analysis running in the same process while this search runs (searches share nothing)
        let background = st["background"].as_str().map(|f| {
            let b = Searcher::new().analyze(state_of_fen(f), 99, Evaluator::default(), None, None);
            std::thread::sleep(std::time::Duration::from_millis(30));
            b
        });
        let t0 = Instant::now();
        let _ = verif::take_shallow_workers_max();
        let (handle, tx, rx) = Searcher::new().analyze(state, seed, Evaluator::default(), depth, prev);
        // "reader": "live" - the events are taken off the channel while the search runs (as a front end does); otherwise they are
        // collected after the search thread has been joined. What is reported must not depend on when it is read.
        let live = st["reader"].as_str() == Some("live") && !drop_rx;
        let mut rx = Some(rx);
        if drop_rx { rx = None; }
        let live_reader = if live {
            let r = rx.take().unwrap();
            Some(std::thread::spawn(move || { let mut v = vec![]; while let Ok(e) = r.recv() { v.push(status_event_json(&e)); } v }))
        } else { None };
        let mut t_stop = None;
        if let Some(ms) = stop_ms {
            std::thread::sleep(std::time::Duration::from_millis(ms));
            for _ in 0..stops { let _ = tx.send(ControlEvent::Stop); }
            t_stop = Some(Instant::now());
        }
        let res = handle.join();
        let after = t_stop.map(|t| t.elapsed().as_millis() as u64);
        if let Some(rx) = rx { while let Ok(e) = rx.try_recv() { out.ev(status_event_json(&e)); } }
        if let Some(h) = live_reader { if let Ok(v) = h.join() { for e in v { out.ev(e); } } }
        // a late Stop after completion must be harmless
        let _ = tx.send(ControlEvent::Stop);
        if let Some((bh, btx, brx)) = background {
            let _ = btx.send(ControlEvent::Stop);
            let _ = bh.join();
            drop(brx);
        }
        n += 1;
        match res {
            Ok(a) => {
                out.ev(json!({"ev": "SearchEnd", "status": "ok", "ms": t0.elapsed().as_millis() as u64, "ms_after_cancel": after.map(|c| c as i64).unwrap_or(-1), "nodes": 0, "nodes_after_cancel": 0,
                              "shallow_workers": verif::take_shallow_workers_max(), "history_len": verif::history_len(&a), "entries": verif::table_entries(&a), "sched": {"grants": 0, "switches": 0, "degraded": false}}));
                artifact = Some(a);
            }
            Err(_) => {
                out.ev(json!({"ev": "SearchEnd", "status": "panic", "msg": "search thread panicked", "ms": t0.elapsed().as_millis() as u64, "ms_after_cancel": after.map(|c| c as i64).unwrap_or(-1), "nodes": 0,
                              "nodes_after_cancel": 0, "history_len": 0, "entries": 0, "sched": {"grants": 0, "switches": 0, "degraded": false}}));
                artifact = None;
            }
        }
        out.flush();
    }
    out.finish();
    println!("{}", json!({"searches": n}));
}

/// Untrusted exhaustive mate solver (the certificate it prints is what TLC checks).
enum Cert {
    Att(Move, Box<Cert>),            // attacker plays the move, then the defender tree
    Def(Vec<(Move, Cert)>),          // every legal reply with its attacker subtree
    Mate,                            // defender to move is checkmated
}

fn lose_in(q: &State, n: usize, budget: &mut i64) -> Option<Cert> {
    *budget -= 1;
    if *budget < 0 { return None; }
    let replies = MoveGenerator::compute_legal_moves(q);
    if replies.is_empty() { return if q.is_check() { Some(Cert::Mate) } else { None }; }
    if n == 0 { return None; }
    let mut out = vec![];
    for r in replies.moves().iter() {
        match win_in(&r.1, n - 1, None, budget) { Some(t) => out.push((r.0, t)), None => return None }
    }
    Some(Cert::Def(out))
}

fn win_in(p: &State, n: usize, only: Option<Move>, budget: &mut i64) -> Option<Cert> {
    *budget -= 1;
    if *budget < 0 || n == 0 { return None; }
    let moves = MoveGenerator::compute_legal_moves(p);
    // checking moves first: forced mates mostly start with one
    let mut order: Vec<&MoveResult> = moves.moves().iter().collect();
    order.sort_by_key(|r| if r.1.is_check() { 0 } else { 1 });
    for r in order {
        if let Some(m) = only { if m != r.0 { continue; } }
        if let Some(t) = lose_in(&r.1, n - 1, budget) { return Some(Cert::Att(r.0, Box::new(t))); }
        if *budget < 0 { return None; }
    }
    None
}

fn emit_cert(out: &mut Out, id: &mut usize, parent: usize, ply: usize, p: &State, c: &Cert) {
    *id += 1;
    let me = *id;
    match c {
        Cert::Att(m, child) => {
            out.ev(json!({"ev": "Cert", "id": me, "parent": parent, "kind": "att", "ply": ply, "pos": pos_json(p), "mv": mv_json(m)}));
            let q = State::by_performing_move(p, m).unwrap();
            emit_cert(out, id, me, ply + 1, &q, child);
        }
        Cert::Def(replies) => {
            out.ev(json!({"ev": "Cert", "id": me, "parent": parent, "kind": "def", "ply": ply, "pos": pos_json(p), "replies": replies.iter().map(|r| mv_json(&r.0)).collect::<Vec<_>>()}));
            for (r, t) in replies.iter() {
                let np = State::by_performing_move(p, r).unwrap();
                emit_cert(out, id, me, ply + 1, &np, t);
            }
        }
        Cert::Mate => out.ev(json!({"ev": "Cert", "id": me, "parent": parent, "kind": "mate", "ply": ply, "pos": pos_json(p)})),
    }
}

/// wv mate-cert --fens file --out f : for positions where the (untrusted) exhaustive solver finds a forced mate within
/// 5 plies, prints the full strategy tree as a certificate for TLC (CertTrace.tla), then searches the position with the
/// real engine at depth n..n+2 from fresh memory and logs claim and first move, together with a certificate that the
/// engine's first move keeps a forced mate (when the solver can provide one within its bound).
pub fn mate_cert(args: &Args) {
    quiet_panics();
    let _ = rayon::ThreadPoolBuilder::new().num_threads(8).build_global();
    let fens = read_lines(args.get("--fens").expect("--fens"));
    let lo: usize = args.num("--lo", 0);
    let hi: usize = args.num("--hi", fens.len());
    let seed: u64 = args.num("--seed", 1);
    let node_budget: i64 = args.num("--budget", 400_000);
    let mut out = Out::new(args.get("--out"));
    let (mut n_roots, mut n_mates, mut n_searches, mut n_exhausted) = (0usize, 0usize, 0usize, 0usize);
    for f in fens[lo.min(fens.len())..hi.min(fens.len())].iter() {
        let root = state_of_fen(f);
        n_roots += 1;
        // minimal forced mate within 5 plies
        let mut found: Option<(usize, Cert)> = None;
        let mut exhausted = false;
        for n in [1usize, 3, 5] {
            let mut budget = node_budget;
            if let Some(t) = win_in(&root, n, None, &mut budget) { found = Some((n, t)); break; }
            if budget < 0 { exhausted = true; break; }
        }
        let Some((n, tree)) = found else {
            if exhausted { n_exhausted += 1; }
            continue;
        };
        n_mates += 1;
        let mut id = 0usize;
        out.ev(json!({"ev": "CertRoot", "what": "minimal", "pos": pos_json(&root), "fen": f, "n": n}));
        emit_cert(&mut out, &mut id, 0, 0, &root, &tree);
        out.ev(json!({"ev": "CertEnd"}));
        for d in n..=(n + 2) {
            for workers in [1usize, 2] {
                if workers == 2 && d != n { continue; }
                n_searches += 1;
                let art = verif::new_artifact(seed ^ (d as u64 * 7919), 8, 1024);
                let mut last: Option<(i32, bool, Move)> = None;
                let st = root.clone();
                let sd = seed + d as u64 * 31 + workers as u64;
                let r = guarded(std::panic::AssertUnwindSafe(|| {
                    verif::analyze_sync(st, sd, Some(d), Some(workers), Some(art), None, &mut |e| {
                        if let StatusEvent::BestMove { line, evaluation } = e {
                            if let Some(m) = line.first() { last = Some((i32::from(evaluation), evaluation.is_terminal(), *m)); }
                        }
                    })
                }));
                let (claim, eval, mv) = match (&r, last) { (Ok(_), Some((e, t, m))) => (t && e > 0, e, Some(m)), _ => (false, 0, None) };
                // a certificate that the engine's own first move keeps a forced mate (bound: 7 plies in all)
                let mut proved = false;
                if let (true, Some(m)) = (claim, mv) {
                    for nn in [n, n + 2, 7] {
                        let mut budget = node_budget;
                        if let Some(t) = win_in(&root, nn, Some(m), &mut budget) {
                            let mut id2 = 0usize;
                            out.ev(json!({"ev": "CertRoot", "what": "move", "pos": pos_json(&root), "fen": f, "n": nn}));
                            emit_cert(&mut out, &mut id2, 0, 0, &root, &t);
                            out.ev(json!({"ev": "CertEnd"}));
                            proved = true;
                            break;
                        }
                    }
                }
                out.ev(json!({"ev": "CertSearch", "fen": f, "depth": d, "workers": workers, "seed": sd.to_string(), "status": if r.is_ok() { "ok" } else { "panic" },
                              "claim": claim, "eval": eval, "has_mv": mv.is_some(), "mv": mv.map(|m| mv_json(&m)).unwrap_or(json!({})), "first_move_proved": proved}));
            }
        }
        out.flush();
    }
    out.finish();
    println!("{}", json!({"roots": n_roots, "with_forced_mate_within_5": n_mates, "solver_budget_exhausted": n_exhausted, "engine_searches": n_searches}));
}

/// wv mate-mine --count N --seed S --out f : (untrusted) miner of forced mates within 5 plies whose only mate-keeping
/// first moves are under-promotions. Prints FENs; what they claim is re-derived by `mate-cert` and checked by TLC.
pub fn mate_mine(args: &Args) {
    use rand::{Rng, SeedableRng};
    quiet_panics();
    match args.get("--mode") {
        Some("castle") => return mate_mine_castle(args),
        Some("forced") => return mate_mine_shapes(args, "forced"),
        Some("doomed") => return mate_mine_shapes(args, "doomed"),
        Some("terminals") => return mate_mine_terminals(args),
        Some("crowded") => return mate_mine_crowded(args),
        Some("horizon") => return mate_mine_horizon(args),
        _ => {}
    }
    let count: usize = args.num("--count", 10);
    let seed: u64 = args.num("--seed", 1);
    let tries: usize = args.num("--tries", 400_000);
    let mut rng = rand_chacha::ChaCha8Rng::seed_from_u64(seed);
    let mut out = Out::new(args.get("--out"));
    let mut found = std::collections::BTreeSet::new();
    for _ in 0..tries {
        if found.len() >= count { break; }
        let mut board = vec!['.'; 64];
        let mut free: Vec<usize> = (0..64).collect();
        let mut take = |rng: &mut rand_chacha::ChaCha8Rng, pred: &dyn Fn(usize) -> bool| -> Option<usize> {
            let c: Vec<usize> = free.iter().cloned().filter(|s| pred(*s)).collect();
            if c.is_empty() { return None; }
            let s = c[rng.gen_range(0..c.len())];
            free.retain(|x| *x != s);
            Some(s)
        };
        let pawn = take(&mut rng, &|s| s / 8 == 6).unwrap();
        board[pawn] = 'P';
        let wk = take(&mut rng, &|_| true).unwrap();
        board[wk] = 'K';
        let bk = match take(&mut rng, &|s| ((s / 8) as i32 - (wk / 8) as i32).abs() > 1 || ((s % 8) as i32 - (wk % 8) as i32).abs() > 1) { Some(s) => s, None => continue };
        board[bk] = 'k';
        for _ in 0..rng.gen_range(0..3) {
            let pc = ['Q', 'R', 'B', 'N', 'B', 'N'][rng.gen_range(0..6)];
            if let Some(s) = take(&mut rng, &|_| true) { board[s] = pc; }
        }
        for _ in 0..rng.gen_range(0..3) {
            let pc = ['r', 'b', 'n', 'p', 'p', 'q'][rng.gen_range(0..6)];
            if let Some(s) = take(&mut rng, &|s| pc != 'p' || (s / 8 >= 1 && s / 8 <= 6)) { board[s] = pc; }
        }
        let mut rows = vec![];
        for r in (0..8).rev() {
            let mut row = String::new();
            let mut gap = 0;
            for f in 0..8 {
                let c = board[r * 8 + f];
                if c == '.' { gap += 1; } else { if gap > 0 { row.push_str(&gap.to_string()); gap = 0; } row.push(c); }
            }
            if gap > 0 { row.push_str(&gap.to_string()); }
            rows.push(row);
        }
        let place = rows.join("/");
        // the side that is not to move must not be in check
        let flipped = state_of_fen(&format!("{} b - - 0 1", place));
        if flipped.is_check() { continue; }
        let fen = format!("{} w - - 0 1", place);
        let root = state_of_fen(&fen);
        let moves = MoveGenerator::compute_legal_moves(&root);
        if !moves.moves().iter().any(|r| r.0.promotion().is_some()) { continue; }
        let mut n_found = None;
        for n in [1usize, 3, 5] {
            let mut budget = 150_000i64;
            if win_in(&root, n, None, &mut budget).is_some() { n_found = Some(n); break; }
            if budget < 0 { break; }
        }
        let Some(n) = n_found else { continue };
        if n < 3 { continue; }
        let mut keepers = vec![];
        let mut exhausted = false;
        for r in moves.moves().iter() {
            let mut budget = 150_000i64;
            if win_in(&root, n, Some(r.0), &mut budget).is_some() { keepers.push(r.0); }
            if budget < 0 { exhausted = true; break; }
        }
        if exhausted || keepers.is_empty() { continue; }
        if keepers.iter().all(|m| matches!(m.promotion(), Some(p) if p != Piece::Queen)) && found.insert(fen.clone()) {
            out.raw(&format!("{}  # mate in {} plies only by {}", fen, n, keepers.iter().map(mv_str).collect::<Vec<_>>().join(" ")));
            out.flush();
        }
    }
    out.finish();
    println!("{}", json!({"found": found.len()}));
}


/// wv mate-mine --mode castle : (untrusted) miner of roots that still hold a castling right, have a forced mate within 3 plies
/// with at least two mate-keeping first moves, one of which is a quiet king or rook move that gives the right up. Prints
/// "<root fen> | <successor fen of that move> | <move>": the successor is what a C17 session records in the history.
fn mate_mine_castle(args: &Args) {
    use rand::{Rng, SeedableRng};
    let count: usize = args.num("--count", 10);
    let seed: u64 = args.num("--seed", 1);
    let tries: usize = args.num("--tries", 400_000);
    let mut rng = rand_chacha::ChaCha8Rng::seed_from_u64(seed);
    let mut out = Out::new(args.get("--out"));
    let mut found = std::collections::BTreeSet::new();
    for t in 0..tries {
        if found.len() >= count { break; }
        let white = t % 2 == 0;
        let mut board = vec!['.'; 64];
        let (k, ra, rh) = if white { (4usize, 0usize, 7usize) } else { (60, 56, 63) };
        let side_k = rng.gen_bool(0.5);
        board[k] = if white { 'K' } else { 'k' };
        board[if side_k { rh } else { ra }] = if white { 'R' } else { 'r' };
        let mut free: Vec<usize> = (0..64).filter(|s| board[*s] == '.').collect();
        let mut put = |rng: &mut rand_chacha::ChaCha8Rng, board: &mut Vec<char>, c: char| {
            let i = rng.gen_range(0..free.len());
            let s = free.remove(i);
            board[s] = c;
        };
        let pcs = if white { ['R', 'Q', 'R', 'B'] } else { ['r', 'q', 'r', 'b'] };
        for _ in 0..rng.gen_range(1..3) { let c = pcs[rng.gen_range(0..4)]; put(&mut rng, &mut board, c); }
        put(&mut rng, &mut board, if white { 'k' } else { 'K' });
        if rng.gen_bool(0.3) { let c = if white { 'n' } else { 'N' }; put(&mut rng, &mut board, c); }
        let mut rows = vec![];
        for r in (0..8).rev() {
            let mut row = String::new();
            let mut gap = 0;
            for f in 0..8 {
                let c = board[r * 8 + f];
                if c == '.' { gap += 1; } else { if gap > 0 { row.push_str(&gap.to_string()); gap = 0; } row.push(c); }
            }
            if gap > 0 { row.push_str(&gap.to_string()); }
            rows.push(row);
        }
        let place = rows.join("/");
        let right = match (white, side_k) { (true, true) => "K", (true, false) => "Q", (false, true) => "k", (false, false) => "q" };
        let (stm, other) = if white { ("w", "b") } else { ("b", "w") };
        // kings apart, the side not to move not in check
        let ok = std::panic::catch_unwind(|| { let f = state_of_fen(&format!("{} {} - - 0 1", place, other)); !f.is_check() }).unwrap_or(false);
        if !ok { continue; }
        let fen = format!("{} {} {} - {} {}", place, stm, right, rng.gen_range(0..30), rng.gen_range(20..60));
        let root = state_of_fen(&fen);
        let moves = MoveGenerator::compute_legal_moves(&root);
        let mut n_found = None;
        for n in [1usize, 3] {
            let mut budget = 100_000i64;
            if win_in(&root, n, None, &mut budget).is_some() { n_found = Some(n); break; }
            if budget < 0 { break; }
        }
        let Some(n) = n_found else { continue };
        let mut keepers = vec![];
        for r in moves.moves().iter() {
            let mut budget = 100_000i64;
            if win_in(&root, n, Some(r.0), &mut budget).is_some() { keepers.push((r.0, r.1.clone())); }
        }
        if keepers.len() < 2 { continue; }
        let giving_up: Vec<&(Move, State)> = keepers.iter().filter(|(m, _)| {
            m.capture().is_none() && m.castle_side().is_none()
                && (m.piece() == Piece::King || (m.piece() == Piece::Rook && mv_str(m).starts_with(if side_k { if white { "h1" } else { "h8" } } else if white { "a1" } else { "a8" })))
        }).collect();
        // all of them are recorded; at least one other mate-keeping move must remain
        if giving_up.is_empty() || giving_up.len() == keepers.len() { continue; }
        if found.insert(fen.clone()) {
            out.raw(&format!("{} | {} | {} | mate in {} plies, {} mate-keeping first moves", fen, giving_up.iter().map(|(_, s)| fen_of(s)).collect::<Vec<_>>().join(" ; "),
                             giving_up.iter().map(|(m, _)| mv_str(m)).collect::<Vec<_>>().join(" "), n, keepers.len()));
            out.flush();
        }
    }
    out.finish();
    println!("{}", json!({"found": found.len()}));
}

/// Random legal position with the given side to move: kings, up to `extra` other men.
fn random_position(rng: &mut rand_chacha::ChaCha8Rng, extra: usize) -> Option<String> {
    use rand::Rng;
    let mut board = vec!['.'; 64];
    let mut free: Vec<usize> = (0..64).collect();
    let mut put = |rng: &mut rand_chacha::ChaCha8Rng, board: &mut Vec<char>, c: char| -> bool {
        let cand: Vec<usize> = free.iter().cloned().filter(|s| !(c == 'P' || c == 'p') || (s / 8 >= 1 && s / 8 <= 6)).collect();
        if cand.is_empty() { return false; }
        let s = cand[rng.gen_range(0..cand.len())];
        free.retain(|x| *x != s);
        board[s] = c;
        true
    };
    put(rng, &mut board, 'K');
    put(rng, &mut board, 'k');
    let pcs = ['Q', 'R', 'B', 'N', 'P', 'P', 'q', 'r', 'b', 'n', 'p', 'p', 'R', 'r', 'Q', 'q'];
    for _ in 0..rng.gen_range(1..=extra) { let c = pcs[rng.gen_range(0..pcs.len())]; put(rng, &mut board, c); }
    let mut rows = vec![];
    for r in (0..8).rev() {
        let mut row = String::new();
        let mut gap = 0;
        for f in 0..8 {
            let c = board[r * 8 + f];
            if c == '.' { gap += 1; } else { if gap > 0 { row.push_str(&gap.to_string()); gap = 0; } row.push(c); }
        }
        if gap > 0 { row.push_str(&gap.to_string()); }
        rows.push(row);
    }
    let place = rows.join("/");
    let (stm, other) = if rng.gen_bool(0.5) { ("w", "b") } else { ("b", "w") };
    let ok = std::panic::catch_unwind(|| { let f = state_of_fen(&format!("{} {} - - 0 1", place, other)); !f.is_check() }).unwrap_or(false);
    if !ok { return None; }
    // kings not adjacent is implied (the side not to move would be in check)
    Some(format!("{} {} - - {} {}", place, stm, rng.gen_range(0..40), rng.gen_range(20..70)))
}

/// wv mate-mine --mode forced : roots with exactly one legal move behind which the side to move has a forced mate in 3 or 5 plies.
/// wv mate-mine --mode doomed : roots with at least one legal move where every legal move allows mate in one (by a capture for
/// at least one of them).  Both untrusted: what is claimed about them is re-derived by mate-cert / judged by TLC from the rules.
fn mate_mine_shapes(args: &Args, mode: &str) {
    use rand::SeedableRng;
    let count: usize = args.num("--count", 10);
    let seed: u64 = args.num("--seed", 1);
    let tries: usize = args.num("--tries", 2_000_000);
    let mut rng = rand_chacha::ChaCha8Rng::seed_from_u64(seed);
    let mut out = Out::new(args.get("--out"));
    let mut found = std::collections::BTreeSet::new();
    for _ in 0..tries {
        if found.len() >= count { break; }
        let Some(fen) = random_position(&mut rng, 6) else { continue };
        let root = state_of_fen(&fen);
        let moves = MoveGenerator::compute_legal_moves(&root);
        if mode == "forced" {
            if moves.moves().len() != 1 { continue; }
            let mut n_found = None;
            for n in [3usize, 5] {
                let mut budget = 200_000i64;
                if win_in(&root, n, None, &mut budget).is_some() { n_found = Some(n); break; }
                if budget < 0 { break; }
            }
            let Some(n) = n_found else { continue };
            let mut b1 = 1000i64;
            if win_in(&root, 1, None, &mut b1).is_some() { continue; }
            if found.insert(fen.clone()) { out.raw(&format!("{}  # one legal move, mate in {} plies", fen, n)); out.flush(); }
        } else {
            if moves.moves().is_empty() || root.is_check() && moves.moves().len() > 3 { continue; }
            let mut all = true;
            let mut by_capture = false;
            for r in moves.moves().iter() {
                let replies = MoveGenerator::compute_legal_moves(&r.1);
                let mating: Vec<&MoveResult> = replies.moves().iter().filter(|x| x.1.is_check() && MoveGenerator::compute_legal_moves(&x.1).moves().is_empty()).collect();
                if mating.is_empty() { all = false; break; }
                if mating.iter().all(|x| x.0.capture().is_some()) { by_capture = true; }
            }
            if !all || !by_capture { continue; }
            if found.insert(fen.clone()) { out.raw(&format!("{}  # {} legal move(s), each answered by mate in one (a capture for some)", fen, moves.moves().len())); out.flush(); }
        }
    }
    out.finish();
    println!("{}", json!({"found": found.len()}));
}

/// wv mate-mine --mode terminals : checkmates and stalemates of many shapes (which piece kinds give the check, double checks,
/// stalemates with an enemy pawn next to the king, with own blocked men), a few per shape and colour. Untrusted: TLC decides
/// what each position is (ChessTrace!TEval).
fn mate_mine_terminals(args: &Args) {
    use rand::SeedableRng;
    let per_class: usize = args.num("--count", 4);
    let seed: u64 = args.num("--seed", 1);
    let tries: usize = args.num("--tries", 6_000_000);
    let mut rng = rand_chacha::ChaCha8Rng::seed_from_u64(seed);
    let mut out = Out::new(args.get("--out"));
    let mut classes: std::collections::BTreeMap<String, Vec<String>> = Default::default();
    for _ in 0..tries {
        let Some(fen) = random_position(&mut rng, 5) else { continue };
        let root = state_of_fen(&fen);
        if !MoveGenerator::compute_legal_moves(&root).moves().is_empty() { continue; }
        let f: Vec<&str> = fen.split_whitespace().collect();
        let white = f[1] == "w";
        let mut board = vec!['.'; 64];
        for (ri, rank) in f[0].split('/').enumerate() {
            let mut file = 0usize;
            for ch in rank.chars() { if let Some(d) = ch.to_digit(10) { file += d as usize; } else { board[(7 - ri) * 8 + file] = ch; file += 1; } }
        }
        let ksq = board.iter().position(|c| *c == if white { 'K' } else { 'k' }).unwrap();
        let (kf, kr) = ((ksq % 8) as i32, (ksq / 8) as i32);
        let class = if root.is_check() {
            // which enemy men attack the king's square: remove each in turn and see whether the check disappears is costly; classify by geometry instead
            let mut kinds = vec![];
            for (s, c) in board.iter().enumerate() {
                if *c == '.' || c.is_ascii_uppercase() == white { continue; }
                let (df, dr) = ((s % 8) as i32 - kf, (s / 8) as i32 - kr);
                let k = c.to_ascii_uppercase();
                let hit = match k {
                    'P' => df.abs() == 1 && dr == if white { 1 } else { -1 },
                    'N' => (df.abs(), dr.abs()) == (1, 2) || (df.abs(), dr.abs()) == (2, 1),
                    'B' | 'R' | 'Q' => {
                        let line = (k != 'B' && (df == 0 || dr == 0)) || (k != 'R' && df.abs() == dr.abs());
                        line && {
                            let (sf, sr) = (df.signum(), dr.signum());
                            let n = df.abs().max(dr.abs());
                            (1..n).all(|i| board[((kr + sr * i) * 8 + kf + sf * i) as usize] == '.')
                        }
                    }
                    _ => false,
                };
                if hit { kinds.push(k); }
            }
            kinds.sort();
            format!("mate by {} ({})", kinds.iter().collect::<String>(), f[1])
        } else {
            let enemy_pawn = if white { 'p' } else { 'P' };
            let adj = (-1..=1).flat_map(|a| (-1..=1).map(move |b| (a, b))).any(|(a, b): (i32, i32)| {
                a != 0 && b != 0 && (kf + a) >= 0 && (kf + a) < 8 && (kr + b) >= 0 && (kr + b) < 8 && board[((kr + b) * 8 + kf + a) as usize] == enemy_pawn
            });
            let own = board.iter().filter(|c| **c != '.' && c.is_ascii_uppercase() == white).count() - 1;
            format!("stalemate{}{} ({})", if adj { ", enemy pawn diagonally next to the king" } else { "" }, if own > 0 { ", own blocked men" } else { "" }, f[1])
        };
        let v = classes.entry(class).or_default();
        if v.len() < per_class && !v.contains(&fen) { v.push(fen); }
    }
    let mut n = 0;
    for (c, v) in classes.iter() {
        out.raw(&format!("# {}", c));
        for f in v { out.raw(f); n += 1; }
    }
    out.finish();
    println!("{}", json!({"found": n, "classes": classes.len()}));
}

/// wv mate-mine --mode crowded : legal positions in which a bishop, rook or queen has every "relevant" square of its lines
/// (all ray squares except the last one before the edge) occupied, with an enemy man - sometimes the enemy king - among the
/// nearest blockers. Untrusted input generator for the attack-set checks.
fn mate_mine_crowded(args: &Args) {
    use rand::{Rng, SeedableRng};
    let count: usize = args.num("--count", 40);
    let seed: u64 = args.num("--seed", 1);
    let mut rng = rand_chacha::ChaCha8Rng::seed_from_u64(seed);
    let mut out = Out::new(args.get("--out"));
    let mut found = std::collections::BTreeSet::new();
    let dirs_r: [(i32, i32); 4] = [(1, 0), (-1, 0), (0, 1), (0, -1)];
    let dirs_b: [(i32, i32); 4] = [(1, 1), (1, -1), (-1, 1), (-1, -1)];
    for _ in 0..2_000_000 {
        if found.len() >= count { break; }
        let kind = ['B', 'B', 'R', 'Q'][rng.gen_range(0..4)];
        let white = rng.gen_bool(0.5);
        let s = rng.gen_range(0..64usize);
        let (f0, r0) = ((s % 8) as i32, (s / 8) as i32);
        let mut board = vec!['.'; 64];
        board[s] = if white { kind } else { kind.to_ascii_lowercase() };
        let mut dirs: Vec<(i32, i32)> = vec![];
        if kind != 'B' { dirs.extend(dirs_r.iter()); }
        if kind != 'R' { dirs.extend(dirs_b.iter()); }
        let mut relevant: Vec<usize> = vec![];
        for (df, dr) in dirs.iter() {
            let (mut f, mut r) = (f0 + df, r0 + dr);
            while f >= 0 && f < 8 && r >= 0 && r < 8 {
                let (nf, nr) = (f + df, r + dr);
                if nf >= 0 && nf < 8 && nr >= 0 && nr < 8 { relevant.push((r * 8 + f) as usize); }
                f = nf; r = nr;
            }
        }
        if relevant.is_empty() || relevant.len() > 12 { continue; }
        // kings: sometimes the enemy king on a relevant square next to the slider, otherwise elsewhere
        let enemy_k = if white { 'k' } else { 'K' };
        let own_k = if white { 'K' } else { 'k' };
        let mut men = 0;
        for sq in relevant.iter() {
            let own = rng.gen_bool(0.4);
            let c = ['P', 'N', 'P', 'B', 'P', 'R'][rng.gen_range(0..6)];
            let c = if c == 'P' && (sq / 8 == 0 || sq / 8 == 7) { 'N' } else { c };
            board[*sq] = if own == white { c } else { c.to_ascii_lowercase() };
            men += 1;
        }
        if men > 13 { continue; }
        if rng.gen_bool(0.5) { let sq = relevant[rng.gen_range(0..relevant.len())]; board[sq] = enemy_k; }
        let free: Vec<usize> = (0..64).filter(|x| board[*x] == '.').collect();
        if !board.contains(&enemy_k) { board[free[rng.gen_range(0..free.len())]] = enemy_k; }
        let free: Vec<usize> = (0..64).filter(|x| board[*x] == '.').collect();
        board[free[rng.gen_range(0..free.len())]] = own_k;
        let mut rows = vec![];
        for r in (0..8).rev() {
            let mut row = String::new();
            let mut gap = 0;
            for f in 0..8 {
                let c = board[r * 8 + f];
                if c == '.' { gap += 1; } else { if gap > 0 { row.push_str(&gap.to_string()); gap = 0; } row.push(c); }
            }
            if gap > 0 { row.push_str(&gap.to_string()); }
            rows.push(row);
        }
        let place = rows.join("/");
        // the side to move is the one that may be in check; the other side must not be
        for (stm, other) in [("w", "b"), ("b", "w")] {
            let ok = std::panic::catch_unwind(|| { let f = state_of_fen(&format!("{} {} - - 0 1", place, other)); !f.is_check() }).unwrap_or(false);
            if !ok { continue; }
            let fen = format!("{} {} - - {} {}", place, stm, rng.gen_range(0..30), rng.gen_range(10..60));
            if found.len() < count && found.insert(fen.clone()) { out.raw(&fen); }
            break;
        }
    }
    out.finish();
    println!("{}", json!({"found": found.len()}));
}

/// wv mate-mine --mode horizon : positions without a forced mate within 5 plies in which some checking move can be answered by
/// capture evasions that all run into an immediate mating capture, and by a quiet evasion that does not. (What a capture search
/// that looks at captures only, when in check, gets wrong.) Untrusted input generator.
fn mate_mine_horizon(args: &Args) {
    use rand::SeedableRng;
    let count: usize = args.num("--count", 12);
    let seed: u64 = args.num("--seed", 1);
    let tries: usize = args.num("--tries", 3_000_000);
    let mut rng = rand_chacha::ChaCha8Rng::seed_from_u64(seed);
    let mut out = Out::new(args.get("--out"));
    let mut found = std::collections::BTreeSet::new();
    let is_mate = |s: &State| s.is_check() && MoveGenerator::compute_legal_moves(s).moves().is_empty();
    for _ in 0..tries {
        if found.len() >= count { break; }
        let Some(fen) = random_position(&mut rng, 8) else { continue };
        let root = state_of_fen(&fen);
        if root.is_check() { continue; }
        let moves = MoveGenerator::compute_legal_moves(&root);
        let mut hit = None;
        for r in moves.moves().iter() {
            if !r.1.is_check() { continue; }
            let replies = MoveGenerator::compute_legal_moves(&r.1);
            let caps: Vec<&MoveResult> = replies.moves().iter().filter(|x| x.0.capture().is_some()).collect();
            let quiets: Vec<&MoveResult> = replies.moves().iter().filter(|x| x.0.capture().is_none()).collect();
            if caps.is_empty() || quiets.is_empty() { continue; }
            let caps_lose = caps.iter().all(|c| MoveGenerator::compute_legal_moves(&c.1).moves().iter().any(|y| y.0.capture().is_some() && is_mate(&y.1)));
            if !caps_lose { continue; }
            let quiet_holds = quiets.iter().any(|q| { let mut b = 20_000i64; win_in(&q.1, 3, None, &mut b).is_none() && b >= 0 });
            if quiet_holds { hit = Some(r.0); break; }
        }
        let Some(m) = hit else { continue };
        let mut budget = 400_000i64;
        if win_in(&root, 5, None, &mut budget).is_some() || budget < 0 { continue; }
        if found.insert(fen.clone()) { out.raw(&format!("{}  # {} checks; capture evasions lose to a mating capture, a quiet evasion holds; no forced mate within 5 plies", fen, mv_str(&m))); out.flush(); }
    }
    out.finish();
    println!("{}", json!({"found": found.len()}));
}
