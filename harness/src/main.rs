//! wv: conformance harness driving the real weechess code (built from /repo's working tree).
#![feature(generic_const_exprs)]
#![allow(incomplete_features)]

mod book;
mod families;
mod play;
mod search;
mod pure;
mod textreplay;
mod tt;

fn main() {
    let argv: Vec<String> = std::env::args().collect();
    if argv.len() < 2 {
        eprintln!("usage: wv <command> [--key value ...]");
        std::process::exit(2);
    }
    let args = wv::Args(argv[2..].to_vec());
    match argv[1].as_str() {
        "play" => play::run(&args),
        "families" => families::run(&args),
        "book" => book::run(&args),
        "magic" => pure::magic(&args),
        "movevalue" => pure::movevalue(&args),
        "perft" => pure::perft(&args),
        "tt-seq" => tt::seq(&args),
        "tt-hammer" => tt::hammer(&args),
        "tt-own" => tt::own(&args),
        "search" => search::run(&args),
        "search-public" => search::public(&args),
        "mate-cert" => search::mate_cert(&args),
        "mate-mine" => search::mate_mine(&args),
        "parse" => textreplay::parse(&args),
        "san" => textreplay::san(&args),
        "fen" => textreplay::fen(&args),
        "hashvar" => textreplay::hashvar(&args),
        other => {
            eprintln!("unknown command {}", other);
            std::process::exit(2);
        }
    }
}
