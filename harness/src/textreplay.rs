//! Specification -> implementation replay for the text properties (TextGen.tla GEN lines).
use rand::SeedableRng;
use rand_chacha::ChaCha8Rng;
use serde_json::{json, Value};
use weechess_core::notation::{into_notation, lan::Lan, try_from_notation, Fen, San};
use weechess_core::*;
use wv::*;

/// C12: every spelling selects exactly its move; negatives select nothing; LAN text and its re-resolution.
pub fn san(args: &Args) {
    quiet_panics();
    let inputs: Vec<&str> = args.get("--in").expect("--in").split(',').collect();
    let mut out = Out::new(args.get("--out"));
    let (mut n_pos, mut n_sp, mut n_neg, mut n_lan, mut n_amb) = (0u64, 0u64, 0u64, 0u64, 0u64);
    let mut samples: Vec<Value> = vec![];
    for path in inputs {
        for g in tlc_payloads(path, "GEN") {
            let fen = g["fen"].as_str().unwrap().to_string();
            let s = state_of_fen(&fen);
            n_pos += 1;
            let legal = MoveGenerator::compute_legal_moves(&s);
            for c in g["cases"].as_array().unwrap() {
                let want = c["m"].as_str().unwrap();
                let sans = c["san"].as_array().unwrap();
                if sans.len() > 2 { n_amb += 1; }
                for sp in sans {
                    n_sp += 1;
                    let text = sp.as_str().unwrap().to_string();
                    let t2 = text.clone();
                    match guarded(move || try_from_notation::<MoveQuery, San>(&t2)) {
                        Err(msg) => out.ev(json!({"prop": "C12", "kind": "SAN reader panicked", "fen": fen, "text": text, "msg": msg})),
                        Ok(Err(())) => out.ev(json!({"prop": "C12", "kind": "SAN spelling rejected", "fen": fen, "text": text, "mv": want})),
                        Ok(Ok(q)) => {
                            let ms: Vec<String> = legal.filter(q).map(|r| mv_str(&r.0)).collect();
                            if ms.len() != 1 || ms[0] != want {
                                out.ev(json!({"prop": "C12", "kind": "SAN spelling does not select exactly its move", "fen": fen, "text": text, "mv": want, "selected": ms}));
                            }
                        }
                    }
                }
                // LAN writer and coordinate re-resolution
                n_lan += 1;
                match legal.moves().iter().find(|r| mv_str(&r.0) == want) {
                    None => out.ev(json!({"prop": "C12", "kind": "move of the specification not generated", "fen": fen, "mv": want})),
                    Some(r) => {
                        let lan = into_notation::<_, Lan>(&r.0).to_string();
                        let exp = c["lan"].as_str().unwrap();
                        if lan != exp {
                            out.ev(json!({"prop": "C12", "kind": "coordinate notation differs", "fen": fen, "mv": want, "expected": exp, "got": lan}));
                        } else {
                            // the same text, read the way the UCI loop reads it
                            let b = lan.as_bytes();
                            let o = Square::try_from(&lan[0..2]);
                            let d = Square::try_from(&lan[2..4]);
                            if let (Ok(o), Ok(d)) = (o, d) {
                                let mut q = MoveQuery::by_moving_from_to(o, d);
                                if b.len() > 4 {
                                    if let Some(p) = kind_of_letter((b[4] as char).to_ascii_uppercase()) { q.set_promotion(p); }
                                }
                                let ms: Vec<String> = legal.filter(q).map(|r| mv_str(&r.0)).collect();
                                if ms.len() != 1 || ms[0] != want {
                                    out.ev(json!({"prop": "C12", "kind": "coordinate text does not select the same move", "fen": fen, "mv": want, "text": lan, "selected": ms}));
                                }
                            } else {
                                out.ev(json!({"prop": "C12", "kind": "coordinate text unreadable", "fen": fen, "mv": want, "text": lan}));
                            }
                        }
                    }
                }
            }
            for sp in g["neg"].as_array().unwrap() {
                n_neg += 1;
                let text = sp.as_str().unwrap().to_string();
                let t2 = text.clone();
                match guarded(move || try_from_notation::<MoveQuery, San>(&t2)) {
                    Err(msg) => out.ev(json!({"prop": "C12", "kind": "SAN reader panicked", "fen": fen, "text": text, "msg": msg})),
                    Ok(Err(())) => {}
                    Ok(Ok(q)) => {
                        let ms: Vec<String> = legal.filter(q).map(|r| mv_str(&r.0)).collect();
                        if !ms.is_empty() {
                            out.ev(json!({"prop": "C12", "kind": "notation of an illegal move selects a legal move", "fen": fen, "text": text, "selected": ms}));
                        }
                    }
                }
            }
            if samples.len() < 3 && n_pos % 41 == 1 {
                let c = &g["cases"].as_array().unwrap()[0];
                samples.push(json!({"fen": fen, "move": c["m"], "spellings": c["san"], "lan": c["lan"]}));
            }
        }
    }
    out.finish();
    println!("{}", json!({"positions": n_pos, "spellings": n_sp, "negatives": n_neg, "lan": n_lan, "moves_with_more_than_two_spellings": n_amb, "samples": samples}));
}

/// C11 spec -> impl: canonical FEN text read, projected and written back.
pub fn fen(args: &Args) {
    quiet_panics();
    let inputs: Vec<&str> = args.get("--in").expect("--in").split(',').collect();
    let mut out = Out::new(args.get("--out"));
    let mut n = 0u64;
    let mut n_big = 0u64;
    let mut samples: Vec<Value> = vec![];
    for path in inputs {
        for g in tlc_payloads(path, "GEN") {
            n += 1;
            let text = g["text"].as_str().unwrap().to_string();
            if g["full"].as_str().unwrap().len() > 9 || g["half"].as_str().unwrap().len() > 9 { n_big += 1; }
            let t2 = text.clone();
            match guarded(move || try_from_notation::<State, Fen>(&t2)) {
                Err(msg) => out.ev(json!({"prop": "C11", "kind": "FEN reader panicked on a canonical FEN", "text": text, "msg": msg})),
                Ok(Err(())) => out.ev(json!({"prop": "C11", "kind": "canonical FEN rejected", "text": text})),
                Ok(Ok(st)) => {
                    let back = into_notation::<_, Fen>(&st).to_string();
                    if back != text {
                        out.ev(json!({"prop": "C11", "kind": "canonical FEN not reproduced", "text": text, "got": back}));
                    }
                    let p = pos_json(&st);
                    let castle: String = p["castle"].as_array().unwrap().iter().map(|c| c.as_str().unwrap()).collect();
                    let castle = if castle.is_empty() { "-".to_string() } else { castle };
                    let ok = p["board"] == g["board"] && p["stm"] == g["stm"] && castle == g["castle"].as_str().unwrap()
                        && p["ep"] == g["ep"] && p["half"].to_string() == g["half"].as_str().unwrap() && p["full"].to_string() == g["full"].as_str().unwrap();
                    if !ok {
                        out.ev(json!({"prop": "C11", "kind": "FEN read as a different position", "text": text, "got": fen_of(&st)}));
                    }
                }
            }
            if samples.len() < 3 && n % 211 == 1 { samples.push(json!(text)); }
        }
    }
    out.finish();
    println!("{}", json!({"fens": n, "with_counters_beyond_32_bits": n_big, "samples": samples}));
}

/// C08 spec -> impl: variant pairs with the relation their hashes must satisfy.
pub fn hashvar(args: &Args) {
    quiet_panics();
    let inputs: Vec<&str> = args.get("--in").expect("--in").split(',').collect();
    let seeds: Vec<u64> = vec![1, 0xdead_beef, args.num("--seed", 7u64)];
    let hashers: Vec<ZobristHasher> = seeds.iter().map(|s| ZobristHasher::with(&mut ChaCha8Rng::seed_from_u64(*s))).collect();
    let mut out = Out::new(args.get("--out"));
    let mut n = 0u64;
    let mut by_why: std::collections::BTreeMap<String, u64> = Default::default();
    let mut samples: Vec<Value> = vec![];
    for path in inputs {
        for g in tlc_payloads(path, "GEN") {
            n += 1;
            let (pf, qf) = (g["p"].as_str().unwrap(), g["q"].as_str().unwrap());
            let rel = g["rel"].as_str().unwrap();
            let why = g["why"].as_str().unwrap();
            *by_why.entry(format!("{} ({})", why, rel)).or_insert(0) += 1;
            let (p, q) = (state_of_fen(pf), state_of_fen(qf));
            // q meets the hashers in the opposite order: a key must not depend on which hasher saw the value first
            let mut hqs: Vec<Hash> = hashers.iter().rev().map(|h| h.hash(&q)).collect();
            hqs.reverse();
            for (i, h) in hashers.iter().enumerate() {
                let (hp, hq) = (h.hash(&p), hqs[i]);
                let bad = match rel { "same" => hp != hq, "diff" => hp == hq, _ => false };
                if bad {
                    out.ev(json!({"prop": "C08", "kind": if rel == "same" { "same position, different hash" } else { "different positions, same hash" },
                                  "p": pf, "q": qf, "why": why, "seed": seeds[i].to_string()}));
                    break;
                }
            }
            if samples.len() < 3 && n % 97 == 1 { samples.push(json!({"p": pf, "q": qf, "why": why, "rel": rel})); }
        }
    }
    out.finish();
    println!("{}", json!({"pairs": n, "by_kind": by_why, "samples": samples}));
}

/// C14: parsers on (malformed) text from TextGen's mutation model plus random strings; outcome per string.
pub fn parse(args: &Args) {
    quiet_panics();
    let inputs: Vec<&str> = args.get("--in").map(|s| s.split(',').collect()).unwrap_or_default();
    let profile = if cfg!(debug_assertions) { "debug" } else { "release" };
    let mut out = Out::new(args.get("--out"));
    let mut cases: Vec<(String, Vec<u32>)> = vec![];
    for path in inputs {
        for g in tlc_payloads(path, "GEN") {
            cases.push((g["kind"].as_str().unwrap().to_string(), g["cps"].as_array().unwrap().iter().map(|c| c.as_u64().unwrap() as u32).collect()));
        }
    }
    // random top-up
    {
        use rand::{Rng, SeedableRng};
        let mut rng = rand_chacha::ChaCha8Rng::seed_from_u64(args.num("--seed", 1u64));
        let alphabet: Vec<u32> = "rnbqkpRNBQKP12345678/ -wabcdefghxO=+#0".chars().map(|c| c as u32).chain([233u32, 9818, 1632, 8195]).collect();
        for i in 0..args.num("--random", 2000usize) {
            let n = rng.gen_range(0..90);
            let cps: Vec<u32> = (0..n).map(|_| alphabet[rng.gen_range(0..alphabet.len())]).collect();
            cases.push(((if i % 2 == 0 { "fen" } else { "san" }).to_string(), cps));
        }
    }
    let (mut n, mut bad) = (0u64, 0u64);
    let mut by_outcome: std::collections::BTreeMap<String, u64> = Default::default();
    for chunk in cases.chunks(200) {
        for kind in ["fen", "san"] {
            let mut outcomes = vec![];
            let mut texts = vec![];
            for (k, cps) in chunk.iter().filter(|c| c.0 == kind) {
                let text: String = cps.iter().filter_map(|c| char::from_u32(*c)).collect();
                let t2 = text.clone();
                let k2 = k.clone();
                let t0 = std::time::Instant::now();
                let r = guarded(move || if k2 == "fen" { try_from_notation::<State, Fen>(&t2).is_ok() } else { try_from_notation::<MoveQuery, San>(&t2).is_ok() });
                let o = match r { Ok(true) => "ok", Ok(false) => "err", Err(_) => "panic" };
                let o = if t0.elapsed().as_secs() >= 5 { "timeout" } else { o };
                n += 1;
                if o != "ok" && o != "err" { bad += 1; }
                *by_outcome.entry(o.to_string()).or_insert(0) += 1;
                outcomes.push(o);
                texts.push(if o == "ok" || o == "err" { json!(0) } else { json!(cps) });
            }
            if !outcomes.is_empty() {
                out.ev(json!({"ev": "Parse", "kind": kind, "profile": profile, "outcomes": outcomes, "texts": texts}));
            }
        }
    }
    out.finish();
    println!("{}", json!({"strings": n, "not_ok_or_err": bad, "profile": profile, "by_outcome": by_outcome}));
}
