//! C16: the real opening book against the book TLC built from the game files.
use serde_json::{json, Value};
use std::collections::{BTreeMap, BTreeSet};
use weechess_core::*;
use weechess_engine::book::OpeningBook;
use wv::*;

pub fn run(args: &Args) {
    quiet_panics();
    let inputs: Vec<&str> = args.get("--in").expect("--in").split(',').collect();
    let mut out = Out::new(args.get("--out"));
    let book = OpeningBook::try_default().expect("opening book");
    // expected relation: key -> moves; key -> the FEN texts that reach it
    let mut exp: BTreeMap<String, BTreeSet<String>> = BTreeMap::new();
    let mut fens: BTreeMap<String, BTreeSet<String>> = BTreeMap::new();
    let mut variants: Vec<Value> = vec![];
    let mut n_entries = 0u64;
    for path in inputs {
        for g in tlc_payloads(path, "GEN") {
            if g["kind"] == "entry" {
                n_entries += 1;
                let key = g["key"].as_str().unwrap().to_string();
                exp.entry(key.clone()).or_default().insert(g["mv"].as_str().unwrap().to_string());
                fens.entry(key).or_default().insert(g["fen"].as_str().unwrap().to_string());
            } else {
                variants.push(g);
            }
        }
    }
    let lookup = |fen: &str| -> (State, BTreeSet<String>) {
        let s = state_of_fen(fen);
        let got: BTreeSet<String> = book.lookup(&s).map(|ms| ms.iter().map(mv_str).collect()).unwrap_or_default();
        (s, got)
    };
    let mut n_lookups = 0u64;
    let mut samples = vec![];
    for (key, moves) in exp.iter() {
        for fen in fens[key].iter() {
            n_lookups += 1;
            let (s, got) = lookup(fen);
            if got != *moves {
                out.ev(json!({"prop": "C16", "kind": "book offers a different move set than the games played", "fen": fen, "key": key,
                              "missing": moves.difference(&got).collect::<Vec<_>>(), "extra": got.difference(moves).collect::<Vec<_>>()}));
            }
            let legal: BTreeSet<String> = MoveGenerator::compute_legal_moves(&s).moves().iter().map(|r| mv_str(&r.0)).collect();
            if !got.is_subset(&legal) {
                out.ev(json!({"prop": "C16", "kind": "book offers a move that is not legal in the position", "fen": fen, "illegal": got.difference(&legal).collect::<Vec<_>>()}));
            }
            if samples.len() < 3 && n_lookups % 1500 == 2 { samples.push(json!({"fen": fen, "moves": moves})); }
        }
        // positions are identified by placement, side to move, castling rights and en-passant availability: the same position
        // met with other counters (a longer history, a transposition late in a game) has the same recorded moves
        if let Some(fen) = fens[key].iter().next() {
            let f: Vec<&str> = fen.split_whitespace().collect();
            let counters: &[(u32, u32)] = if f[3] != "-" { &[(0, 6), (0, 60)] } else { &[(0, 1), (37, 6), (3, 60), (99, 120)] };
            for (half, full) in counters {
                let alt = format!("{} {} {} {} {} {}", f[0], f[1], f[2], f[3], half, full);
                if fens[key].contains(&alt) { continue; }
                n_lookups += 1;
                let (_, got) = lookup(&alt);
                if got != *moves {
                    out.ev(json!({"prop": "C16", "kind": "book offers a different move set for the same position met with other move counters", "fen": alt, "key": key,
                                  "missing": moves.difference(&got).collect::<Vec<_>>(), "extra": got.difference(moves).collect::<Vec<_>>()}));
                }
            }
        }
    }
    // other histories reaching a book placement: whatever is offered must be legal there (legal set from the specification)
    let mut n_var = 0u64;
    let mut n_var_offered = 0u64;
    for v in variants.iter() {
        n_var += 1;
        let fen = v["fen"].as_str().unwrap();
        let (_, got) = lookup(fen);
        if !got.is_empty() { n_var_offered += 1; }
        let legal: BTreeSet<String> = v["legal"].as_array().unwrap().iter().map(|m| m.as_str().unwrap().to_string()).collect();
        if !got.is_subset(&legal) {
            out.ev(json!({"prop": "C16", "kind": "book offers a move that is not legal in a position reached by another history", "fen": fen, "illegal": got.difference(&legal).collect::<Vec<_>>()}));
        }
        // if the variant's key is a book key, the offer must still be exactly the recorded set
        let key = v["key"].as_str().unwrap();
        if let Some(moves) = exp.get(key) {
            if got != *moves {
                out.ev(json!({"prop": "C16", "kind": "book offers a different move set than the games played", "fen": fen, "key": key,
                              "missing": moves.difference(&got).collect::<Vec<_>>(), "extra": got.difference(moves).collect::<Vec<_>>()}));
            }
        }
    }
    out.finish();
    println!("{}", json!({"entries": n_entries, "distinct_keys": exp.len(), "lookups": n_lookups, "variants": n_var, "variants_offered_something": n_var_offered, "samples": samples}));
}
