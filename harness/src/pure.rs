//! Exhaustive dumps of pure functions: attack tables (C09) and move values (C20).
use rand::{Rng, SeedableRng};
use rand_chacha::ChaCha8Rng;
use serde_json::{json, Value};
use weechess_core::*;
use wv::*;

fn ray_squares(sq: usize, dirs: &[(i32, i32)], relevant: bool) -> Vec<usize> {
    let (f0, r0) = ((sq % 8) as i32, (sq / 8) as i32);
    let mut out = vec![];
    for (df, dr) in dirs {
        let mut ray = vec![];
        let (mut f, mut r) = (f0 + df, r0 + dr);
        while (0..8).contains(&f) && (0..8).contains(&r) {
            ray.push((r * 8 + f) as usize);
            f += df;
            r += dr;
        }
        if relevant && !ray.is_empty() {
            ray.pop();
        }
        out.extend(ray);
    }
    out
}

fn bb_of(squares: &[usize]) -> BitBoard {
    let mut b = BitBoard::ZERO;
    for s in squares {
        b.set(Square::try_from(*s as u8).unwrap(), true);
    }
    b
}

fn slide(piece: &str, sq: usize, occ: BitBoard) -> BitBoard {
    let s = Square::try_from(sq as u8).unwrap();
    match piece {
        "R" => AttackGenerator::compute_rook_attacks(s, occ),
        "B" => AttackGenerator::compute_bishop_attacks(s, occ),
        _ => AttackGenerator::compute_queen_attacks(s, occ),
    }
}

/// wv magic --mode full|relevant --squares a-b --random n --seed s --out f
pub fn magic(args: &Args) {
    quiet_panics();
    let mode = args.get("--mode").unwrap_or("relevant");
    let lo: usize = args.num("--sq-lo", 0);
    let hi_sq: usize = args.num("--sq-hi", 63);
    let nrandom: usize = args.num("--random", 200);
    let mut rng = ChaCha8Rng::seed_from_u64(args.num("--seed", 1u64));
    let mut out = Out::new(args.get("--out"));
    let rook_dirs = [(0, 1), (0, -1), (1, 0), (-1, 0)];
    let bishop_dirs = [(1, 1), (-1, 1), (1, -1), (-1, -1)];
    let mut n_occ = 0u64;
    for sq in lo..=hi_sq {
        for (piece, dirs) in [("R", &rook_dirs), ("B", &bishop_dirs)] {
            let rs = ray_squares(sq, dirs, mode == "relevant");
            let k = rs.len().min(6);
            out.ev(json!({"ev": "SqStart", "piece": piece, "sq": sq + 1, "rs": rs.iter().map(|s| s + 1).collect::<Vec<_>>(), "mode": mode}));
            let nblocks = 1usize << (rs.len() - k);
            for b in 0..nblocks {
                let hi: Vec<usize> = (0..rs.len() - k).filter(|j| (b >> j) & 1 == 1).map(|j| rs[k + j]).collect();
                let mut res = vec![];
                for i in 0..(1usize << k) {
                    let mut occ: Vec<usize> = hi.clone();
                    occ.extend((0..k).filter(|j| (i >> j) & 1 == 1).map(|j| rs[j]));
                    // off-ray squares must not matter: sprinkle some into every occupancy
                    let mut bb = bb_of(&occ);
                    if i % 3 == 1 {
                        for _ in 0..3 {
                            let x: usize = rng.gen_range(0..64);
                            if x != sq && !ray_squares(sq, dirs, false).contains(&x) { bb.set(Square::try_from(x as u8).unwrap(), true); }
                        }
                    }
                    let piece_sq = Square::try_from(sq as u8).unwrap();
                    let r = match guarded(move || slide(piece, sq, bb)) { Ok(r) => bb_squares(r), Err(m) => json!([format!("panic {}", m)]) };
                    let _ = piece_sq;
                    res.push(r);
                    n_occ += 1;
                }
                out.ev(json!({"ev": "Block", "piece": piece, "sq": sq + 1, "hi": hi.iter().map(|s| s + 1).collect::<Vec<_>>(), "res": res}));
            }
            out.ev(json!({"ev": "SqEnd", "piece": piece, "sq": sq + 1, "blocks": nblocks}));
        }
        // fixed patterns and the dispatching entry point, both colours
        let s = Square::try_from(sq as u8).unwrap();
        for (kind, p) in [("N", Piece::Knight), ("K", Piece::King), ("P", Piece::Pawn)] {
            for c in [Color::White, Color::Black] {
                let direct = match kind { "N" => AttackGenerator::compute_knight_attacks(s), "K" => AttackGenerator::compute_king_attacks(s), _ => AttackGenerator::compute_pawn_attacks(s, c) };
                let occ = BitBoard::new(rng.gen::<u64>() & rng.gen::<u64>());
                let via = AttackGenerator::compute(PieceIndex::new(c, p), s, occ);
                out.ev(json!({"ev": "Attack", "piece": kind, "color": color_letter(c), "sq": sq + 1, "occ": bb_squares(occ), "ans": bb_squares(direct), "via": bb_squares(via)}));
            }
        }
        for i in 0..nrandom {
            let dens = i % 4;
            let mut o: u64 = rng.gen();
            for _ in 0..dens { o &= rng.gen::<u64>(); }
            let mut occ = BitBoard::new(o);
            occ.set(s, i % 2 == 0);
            let (kind, p) = [("R", Piece::Rook), ("B", Piece::Bishop), ("Q", Piece::Queen)][i % 3];
            let c = if i % 2 == 0 { Color::White } else { Color::Black };
            let direct = slide(kind, sq, occ);
            let via = AttackGenerator::compute(PieceIndex::new(c, p), s, occ);
            out.ev(json!({"ev": "Attack", "piece": kind, "color": color_letter(c), "sq": sq + 1, "occ": bb_squares(occ), "ans": bb_squares(direct), "via": bb_squares(via)}));
            n_occ += 1;
        }
    }
    out.finish();
    println!("{}", json!({"occupancies": n_occ}));
}

fn full_str(m: &Move) -> String {
    format!("{}{}", mv_str(m), color_letter(m.color()))
}

fn serde_ok(m: &Move) -> bool {
    let mut buf = Vec::new();
    if ciborium::into_writer(m, &mut buf).is_err() { return false; }
    match ciborium::from_reader::<Move, _>(&buf[..]) {
        Ok(b) => b == *m && full_str(&b) == full_str(m) && b.as_raw() == m.as_raw(),
        Err(_) => false,
    }
}

/// wv movevalue --out f : the whole constructor domain, one event per (colour, piece, origin, capture, promotion).
pub fn movevalue(args: &Args) {
    quiet_panics();
    let mut out = Out::new(args.get("--out"));
    let pieces = [Piece::Pawn, Piece::Knight, Piece::Bishop, Piece::Rook, Piece::Queen, Piece::King];
    let caps: [Option<Piece>; 6] = [None, Some(Piece::Pawn), Some(Piece::Knight), Some(Piece::Bishop), Some(Piece::Rook), Some(Piece::Queen)];
    let promos: [Option<Piece>; 5] = [None, Some(Piece::Knight), Some(Piece::Bishop), Some(Piece::Rook), Some(Piece::Queen)];
    let mut n = 0u64;
    let build = |pi: PieceIndex, o: Square, d: Square, cap: Option<Piece>, pro: Option<Piece>| -> Move {
        match (cap, pro) {
            (None, None) => Move::by_moving(pi, o, d),
            (Some(c), None) => Move::by_capturing(pi, o, d, c),
            (None, Some(p)) => Move::by_promoting(pi, o, d, p),
            (Some(c), Some(p)) => Move::by_capture_promoting(pi, o, d, c, p),
        }
    };
    let mut emit = |out: &mut Out, ctor: &str, color: Color, piece: Piece, from: Square, cap: Option<Piece>, pro: Option<Piece>, mk: &dyn Fn(Square) -> Move| {
        let mut strs = vec![];
        let mut raws = vec![];
        let mut flags = vec![];
        let mut prev: Option<Move> = None;
        for d in Square::ALL {
            let m = mk(*d);
            let again = mk(*d);
            let mut fl = 0;
            if m == again && again == m { fl |= 1; }
            // "equal exactly when all attributes are equal", the only-if half: the neighbour differing in the destination, and
            // every value that differs from this one in exactly one other attribute (captured piece, promotion piece, moving
            // piece, colour, origin), must compare unequal in both directions
            let mut distinct = prev.map(|p| p != m && m != p).unwrap_or(true);
            if ctor == "move" {
                let pi = PieceIndex::new(color, piece);
                for c2 in caps.iter().filter(|c| **c != cap) { let o = build(pi, from, *d, *c2, pro); if o == m || m == o { distinct = false; } }
                for p2 in promos.iter().filter(|p| **p != pro) { let o = build(pi, from, *d, cap, *p2); if o == m || m == o { distinct = false; } }
                for k2 in pieces.iter().filter(|k| **k != piece) { let o = build(PieceIndex::new(color, *k2), from, *d, cap, pro); if o == m || m == o { distinct = false; } }
                let oc = build(PieceIndex::new(if color == Color::White { Color::Black } else { Color::White }, piece), from, *d, cap, pro);
                if oc == m || m == oc { distinct = false; }
                let f2 = Square::ALL[(sq_num(from) as usize) % 64];
                let of = build(pi, f2, *d, cap, pro);
                if of == m || m == of { distinct = false; }
            }
            if distinct { fl |= 2; }
            if serde_ok(&m) { fl |= 4; }
            strs.push(json!(full_str(&m)));
            raws.push(json!(m.as_raw()));
            flags.push(json!(fl));
            prev = Some(m);
        }
        out.ev(json!({"ev": "Ctor", "ctor": ctor, "color": color_letter(color), "piece": piece_letter(piece), "from": sq_num(from),
                      "capture": kind_letter(cap), "promo": kind_letter(pro), "strs": strs, "raws": raws, "flags": flags}));
    };
    for color in [Color::White, Color::Black] {
        for piece in pieces {
            let pi = PieceIndex::new(color, piece);
            for from in Square::ALL {
                for cap in caps {
                    for pro in promos {
                        emit(&mut out, "move", color, piece, *from, cap, pro, &|d| build(pi, *from, d, cap, pro));
                        n += 64;
                    }
                }
            }
        }
        let pi = PieceIndex::new(color, Piece::Pawn);
        for from in Square::ALL {
            emit(&mut out, "ep", color, Piece::Pawn, *from, Some(Piece::Pawn), None, &|d| Move::by_en_passant(pi, *from, d));
            n += 64;
        }
    }
    for color in [Color::White, Color::Black] {
        for side in [Side::King, Side::Queen] {
            let m = Move::by_castling(color, side);
            let again = Move::by_castling(color, side);
            let other = Move::by_castling(color, if side == Side::King { Side::Queen } else { Side::King });
            out.ev(json!({"ev": "Castle", "color": color_letter(color), "side": if side == Side::King { "K" } else { "Q" }, "str": full_str(&m), "raw": m.as_raw(),
                          "flags": (if m == again { 1 } else { 0 }) | (if m != other { 2 } else { 0 }) | (if serde_ok(&m) { 4 } else { 0 })}));
            n += 1;
        }
    }
    out.finish();
    println!("{}", json!({"moves": n}));
}

/// wv perft --corpus file --depth d --out f : the implementation's perft walk, one event per inner node.
pub fn perft(args: &Args) {
    quiet_panics();
    let fens = read_lines(args.get("--corpus").expect("--corpus"));
    let depth: usize = args.num("--depth", 3);
    let lo: usize = args.num("--lo", 0);
    let hi: usize = args.num("--hi", fens.len());
    let mut out = Out::new(args.get("--out"));
    let searcher = weechess_engine::searcher::Searcher::new();
    let mut nodes = 0u64;
    let mut leaves = 0u64;
    fn walk(searcher: &weechess_engine::searcher::Searcher, s: &State, r: usize, out: &mut Out, nodes: &mut u64, leaves: &mut u64) -> usize {
        // children of this node as the perft callback reports them at level 1
        let mut kids: Vec<(Move, State, usize)> = vec![];
        let total = searcher.perft(s, r, |ns, mv, level, c| { if level == 1 { kids.push((*mv, ns.clone(), c)); } });
        if r < 2 { *leaves += total as u64; return total; }
        *nodes += 1;
        let mut ch = vec![];
        for (mv, ns, c) in kids.iter() {
            let sub = if r - 1 >= 2 { walk(searcher, ns, r - 1, out, nodes, leaves) } else { searcher.perft(ns, r - 1, |_, _, _, _| {}) };
            ch.push(json!({"mv": mv_json(mv), "next": pos_json(ns), "count": c, "sub": sub}));
        }
        out.ev(json!({"ev": "PerftNode", "pos": pos_json(s), "depth": r, "children": ch, "count": total}));
        total
    }
    for f in fens[lo.min(fens.len())..hi.min(fens.len())].iter() {
        let s = state_of_fen(f);
        let total = walk(&searcher, &s, depth, &mut out, &mut nodes, &mut leaves);
        leaves += if depth >= 2 { total as u64 } else { 0 };
    }
    out.finish();
    println!("{}", json!({"inner_nodes": nodes, "leaves": leaves}));
}
