//! Shared pieces of the conformance harness: the abstraction function (projection of the
//! implementation's values through public accessors only), construction of implementation
//! values from specification values, an independent FEN reader for corpus positions, output.
#![feature(generic_const_exprs)]
#![allow(incomplete_features)]

use serde_json::{json, Value};
use std::io::Write;
use weechess_core::utils::ArrayMap;
use weechess_core::*;

pub fn piece_letter(p: Piece) -> &'static str {
    match p {
        Piece::Pawn => "P",
        Piece::Knight => "N",
        Piece::Bishop => "B",
        Piece::Rook => "R",
        Piece::Queen => "Q",
        Piece::King => "K",
        Piece::None => ".",
    }
}

pub fn kind_letter(p: Option<Piece>) -> &'static str {
    p.map(piece_letter).unwrap_or(".")
}

pub fn color_letter(c: Color) -> &'static str {
    match c {
        Color::White => "w",
        Color::Black => "b",
    }
}

pub fn pi_letter(pi: Option<PieceIndex>) -> String {
    match pi {
        None => ".".to_string(),
        Some(pi) => {
            let p = Piece::try_from(pi).unwrap_or(Piece::None);
            let c = Color::try_from(pi).unwrap_or(Color::White);
            let l = piece_letter(p);
            if c == Color::White {
                l.to_string()
            } else {
                l.to_lowercase()
            }
        }
    }
}

pub fn sq_num(sq: Square) -> u64 {
    let v: u8 = sq.into();
    v as u64 + 1
}

pub fn sq_of(n: u64) -> Square {
    Square::try_from((n - 1) as u8).unwrap()
}

pub fn board_json(b: &Board) -> Value {
    Value::Array(
        Square::ALL
            .iter()
            .map(|sq| Value::String(pi_letter(b.piece_at(*sq))))
            .collect(),
    )
}

/// Abs(State)
pub fn pos_json(s: &State) -> Value {
    let mut castle = vec![];
    if s.castle_rights(Color::White).kingside {
        castle.push("K")
    }
    if s.castle_rights(Color::White).queenside {
        castle.push("Q")
    }
    if s.castle_rights(Color::Black).kingside {
        castle.push("k")
    }
    if s.castle_rights(Color::Black).queenside {
        castle.push("q")
    }
    let ep = s.en_passant_target().map(sq_num).unwrap_or(0);
    json!({"board": board_json(s.board()), "stm": color_letter(s.turn_to_move()), "castle": castle, "ep": ep,
           "half": s.clock().halfmove_clock, "full": s.clock().fullmove_number})
}

/// Abs(Move)
pub fn mv_json(m: &Move) -> Value {
    json!({"from": sq_num(m.origin()), "to": sq_num(m.destination()), "piece": piece_letter(m.piece()),
           "color": color_letter(m.color()), "capture": kind_letter(m.capture()), "promo": kind_letter(m.promotion()),
           "ep": m.is_en_passant(),
           "castle": match m.castle_side() { Some(Side::King) => "K", Some(Side::Queen) => "Q", None => "." },
           "dbl": m.is_double_pawn()})
}

pub fn piece_of_letter(ch: char) -> PieceIndex {
    if ch == '.' {
        return PieceIndex::NONE;
    }
    let color = if ch.is_ascii_uppercase() {
        Color::White
    } else {
        Color::Black
    };
    PieceIndex::new(color, kind_of_letter(ch.to_ascii_uppercase()).unwrap())
}

pub fn kind_of_letter(ch: char) -> Option<Piece> {
    match ch {
        'P' => Some(Piece::Pawn),
        'N' => Some(Piece::Knight),
        'B' => Some(Piece::Bishop),
        'R' => Some(Piece::Rook),
        'Q' => Some(Piece::Queen),
        'K' => Some(Piece::King),
        _ => None,
    }
}

pub fn board_of(v: &Value) -> Board {
    let mut map = Board::empty_map();
    for (i, c) in v.as_array().unwrap().iter().enumerate() {
        map[Square::try_from(i as u8).unwrap()] =
            piece_of_letter(c.as_str().unwrap().chars().next().unwrap());
    }
    Board::from(&map)
}

/// Builds a State from a specification position without going through the FEN reader.
pub fn state_of(v: &Value) -> State {
    let mut cr = ArrayMap::filled(CastleRights::NONE);
    for c in v["castle"].as_array().unwrap() {
        match c.as_str().unwrap() {
            "K" => cr[Color::White].kingside = true,
            "Q" => cr[Color::White].queenside = true,
            "k" => cr[Color::Black].kingside = true,
            _ => cr[Color::Black].queenside = true,
        }
    }
    let ep = v["ep"].as_u64().unwrap();
    let ep = if ep == 0 { None } else { Some(sq_of(ep)) };
    State::new(
        board_of(&v["board"]),
        if v["stm"] == "w" {
            Color::White
        } else {
            Color::Black
        },
        cr,
        ep,
        Clock {
            halfmove_clock: v["half"].as_u64().unwrap() as usize,
            fullmove_number: v["full"].as_u64().unwrap() as usize,
        },
    )
}

/// Independent, strict FEN reader for the harness's own corpus (never the implementation's).
pub fn state_of_fen(fen: &str) -> State {
    let f: Vec<&str> = fen.split_whitespace().collect();
    assert!(f.len() >= 4, "corpus fen: {}", fen);
    let mut board = vec![".".to_string(); 64];
    for (ri, rank) in f[0].split('/').enumerate() {
        let r = 7 - ri;
        let mut file = 0usize;
        for ch in rank.chars() {
            if let Some(d) = ch.to_digit(10) {
                file += d as usize;
            } else {
                board[r * 8 + file] = ch.to_string();
                file += 1;
            }
        }
        assert_eq!(file, 8, "corpus fen rank: {}", fen);
    }
    let castle: Vec<String> = f[2].chars().filter(|c| *c != '-').map(|c| c.to_string()).collect();
    let ep = if f[3] == "-" {
        0
    } else {
        let b = f[3].as_bytes();
        ((b[1] - b'1') as u64) * 8 + (b[0] - b'a') as u64 + 1
    };
    let half: u64 = f.get(4).map(|x| x.parse().unwrap()).unwrap_or(0);
    let full: u64 = f.get(5).map(|x| x.parse().unwrap()).unwrap_or(1);
    state_of(&json!({"board": board, "stm": f[1], "castle": castle, "ep": ep, "half": half, "full": full}))
}

pub fn same_move(m: &Move, v: &Value) -> bool {
    mv_json(m) == *v
}

pub fn chars_json(s: &str) -> Value {
    Value::Array(s.chars().map(|c| Value::String(c.to_string())).collect())
}

pub fn bb_squares(bb: BitBoard) -> Value {
    Value::Array(bb.iter_ones().map(|b| json!(b as u64 + 1)).collect())
}

pub struct Out {
    w: std::io::BufWriter<Box<dyn Write>>,
    pub n: usize,
}

impl Out {
    pub fn new(path: Option<&str>) -> Self {
        let inner: Box<dyn Write> = match path {
            Some(p) if p != "-" => Box::new(std::fs::File::create(p).expect("create output")),
            _ => Box::new(std::io::stdout()),
        };
        Self {
            w: std::io::BufWriter::with_capacity(1 << 20, inner),
            n: 0,
        }
    }
    pub fn ev(&mut self, v: Value) {
        serde_json::to_writer(&mut self.w, &v).unwrap();
        self.w.write_all(b"\n").unwrap();
        self.n += 1;
    }
    pub fn raw(&mut self, line: &str) {
        self.w.write_all(line.as_bytes()).unwrap();
        self.w.write_all(b"\n").unwrap();
        self.n += 1;
    }
    pub fn flush(&mut self) {
        self.w.flush().unwrap();
    }
    pub fn finish(mut self) {
        self.w.flush().unwrap();
    }
}

/// Runs `f`, turning a panic of the code under test into data.
pub fn guarded<T, F: FnOnce() -> T + std::panic::UnwindSafe>(f: F) -> Result<T, String> {
    match std::panic::catch_unwind(f) {
        Ok(v) => Ok(v),
        Err(e) => Err(if let Some(s) = e.downcast_ref::<&str>() {
            s.to_string()
        } else if let Some(s) = e.downcast_ref::<String>() {
            s.clone()
        } else {
            "panic".to_string()
        }),
    }
}

pub fn quiet_panics() {
    // no backtraces; the first few panics leave one line each, so that a panic the harness does not catch can be told apart
    // from a failure of the harness itself (tools/wvlib.py reads the line)
    static SEEN: std::sync::atomic::AtomicUsize = std::sync::atomic::AtomicUsize::new(0);
    std::panic::set_hook(Box::new(|info| {
        if SEEN.fetch_add(1, std::sync::atomic::Ordering::Relaxed) < 20 {
            let loc = info.location().map(|l| format!("{}:{}", l.file(), l.line())).unwrap_or_default();
            let msg = info.payload().downcast_ref::<&str>().map(|s| s.to_string()).or_else(|| info.payload().downcast_ref::<String>().cloned()).unwrap_or_default();
            eprintln!("wv-panic at {} | {}", loc, msg.replace('\n', " "));
        }
    }));
}

/// Simple `--key value` argument access.
pub struct Args(pub Vec<String>);
impl Args {
    pub fn get(&self, key: &str) -> Option<&str> {
        self.0
            .iter()
            .position(|a| a == key)
            .and_then(|i| self.0.get(i + 1))
            .map(|s| s.as_str())
    }
    pub fn num<T: std::str::FromStr>(&self, key: &str, default: T) -> T {
        self.get(key).and_then(|v| v.parse().ok()).unwrap_or(default)
    }
    pub fn flag(&self, key: &str) -> bool {
        self.0.iter().any(|a| a == key)
    }
}

pub fn read_lines(path: &str) -> Vec<String> {
    std::fs::read_to_string(path)
        .unwrap_or_else(|_| panic!("read {}", path))
        .lines()
        .map(|l| l.trim().to_string())
        .filter(|l| !l.is_empty() && !l.starts_with('#'))
        .collect()
}

/// The harness's own FEN writer (by projection; never the implementation's).
pub fn fen_of(s: &State) -> String {
    let mut out = String::new();
    for r in (0..8).rev() {
        let mut run = 0;
        for f in 0..8 {
            let sq = Square::try_from((r * 8 + f) as u8).unwrap();
            let l = pi_letter(s.board().piece_at(sq));
            if l == "." {
                run += 1;
            } else {
                if run > 0 {
                    out.push_str(&run.to_string());
                    run = 0;
                }
                out.push_str(&l);
            }
        }
        if run > 0 {
            out.push_str(&run.to_string());
        }
        if r > 0 {
            out.push('/');
        }
    }
    out.push(' ');
    out.push_str(color_letter(s.turn_to_move()));
    out.push(' ');
    let mut c = String::new();
    if s.castle_rights(Color::White).kingside { c.push('K') }
    if s.castle_rights(Color::White).queenside { c.push('Q') }
    if s.castle_rights(Color::Black).kingside { c.push('k') }
    if s.castle_rights(Color::Black).queenside { c.push('q') }
    if c.is_empty() { c.push('-') }
    out.push_str(&c);
    out.push(' ');
    match s.en_passant_target() {
        None => out.push('-'),
        Some(sq) => out.push_str(&sq_name(sq_num(sq))),
    }
    out.push_str(&format!(" {} {}", s.clock().halfmove_clock, s.clock().fullmove_number));
    out
}

pub fn sq_name(n: u64) -> String {
    let z = n - 1;
    format!("{}{}", (b'a' + (z % 8) as u8) as char, (b'1' + (z / 8) as u8) as char)
}

/// Compact move string, same layout as Families!MvStr.
pub fn mv_str(m: &Move) -> String {
    format!(
        "{}{}{}{}{}{}{}{}",
        sq_name(sq_num(m.origin())),
        sq_name(sq_num(m.destination())),
        piece_letter(m.piece()),
        kind_letter(m.capture()),
        kind_letter(m.promotion()),
        if m.is_en_passant() { "e" } else { "-" },
        match m.castle_side() { Some(Side::King) => "K", Some(Side::Queen) => "Q", None => "." },
        if m.is_double_pawn() { "d" } else { "-" }
    )
}

/// Extracts the JSON payloads of TLC `<<"TAG", "...">>` print lines.
pub fn tlc_payloads(path: &str, tag: &str) -> Vec<Value> {
    let prefix = format!("<<\"{}\", \"", tag);
    let text = std::fs::read_to_string(path).unwrap_or_else(|_| panic!("read {}", path));
    let mut out = vec![];
    for line in text.lines() {
        if let Some(rest) = line.strip_prefix(&prefix) {
            if let Some(body) = rest.strip_suffix("\">>") {
                let un = body.replace("\\\"", "\"").replace("\\\\", "\\");
                match serde_json::from_str::<Value>(&un) {
                    Ok(v) => out.push(v),
                    Err(e) => panic!("bad payload in {}: {}", path, e),
                }
            }
        }
    }
    out
}
