//! Specification -> implementation replay of position families (TLC GEN lines).
use serde_json::{json, Value};
use weechess_core::*;
use weechess_engine::eval::{Evaluation, Evaluator};
use wv::*;

pub fn run(args: &Args) {
    quiet_panics();
    let inputs: Vec<&str> = args.get("--in").expect("--in").split(',').collect();
    let mut out = Out::new(args.get("--out"));
    let ev = Evaluator::default();
    let plies = [0usize, 1, 2, 9, 10, 11, 64];
    let (mut n_pos, mut n_moves, mut n_mate, mut n_stale, mut n_castle, mut n_ep, mut n_promo, mut n_check) = (0u64, 0u64, 0u64, 0u64, 0u64, 0u64, 0u64, 0u64);
    let mut n_eval = 0u64;
    let mut samples: Vec<Value> = vec![];
    for path in inputs {
        for g in tlc_payloads(path, "GEN") {
            let fen = g["fen"].as_str().unwrap().to_string();
            let s = state_of_fen(&fen);
            n_pos += 1;
            let st = g["st"].as_str().unwrap();
            if st == "mate" { n_mate += 1 } else if st == "stalemate" { n_stale += 1 }
            let s2 = s.clone();
            let ms = match guarded(move || MoveGenerator::compute_legal_moves(&s2)) {
                Ok(ms) => ms,
                Err(msg) => { out.ev(json!({"prop": "C01", "kind": "panic in move generation", "fen": fen, "msg": msg})); continue; }
            };
            let mut exp: Vec<(String, String)> = g["mvs"].as_array().unwrap().iter()
                .map(|m| (m["m"].as_str().unwrap().to_string(), m["nx"].as_str().unwrap().to_string())).collect();
            exp.sort();
            let mut got: Vec<(String, String)> = ms.moves().iter().map(|r| (mv_str(&r.0), fen_of(&r.1))).collect();
            got.sort();
            n_moves += got.len() as u64;
            for (m, _) in got.iter() {
                let b = m.as_bytes();
                if b[8] != b'.' { n_castle += 1 }
                if b[7] == b'e' { n_ep += 1 }
                if b[6] != b'.' { n_promo += 1 }
            }
            let em: Vec<&String> = exp.iter().map(|x| &x.0).collect();
            let gm: Vec<&String> = got.iter().map(|x| &x.0).collect();
            if em != gm {
                let missing: Vec<&&String> = em.iter().filter(|m| !gm.contains(m)).collect();
                let extra: Vec<&&String> = gm.iter().filter(|m| !em.contains(m)).collect();
                out.ev(json!({"prop": "C01", "kind": "move set differs", "fen": fen, "missing": missing, "extra": extra,
                              "dup": gm.len() != { let mut d = gm.clone(); d.dedup(); d.len() }}));
            }
            for (m, nx) in got.iter() {
                if let Some((_, enx)) = exp.iter().find(|x| &x.0 == m) {
                    if enx != nx {
                        out.ev(json!({"prop": "C02", "kind": "successor differs", "fen": fen, "mv": m, "expected": enx, "got": nx}));
                    }
                }
            }
            let chk = g["chk"].as_bool().unwrap();
            if chk { n_check += 1 }
            if s.is_check() != chk {
                out.ev(json!({"prop": "C10", "kind": "is_check", "fen": fen, "expected": chk}));
            }
            // colour symmetry (C13): the specification supplies the mirrored position; both relations need no score oracle
            if let Some(mfen) = g["mfen"].as_str() {
                let ms = state_of_fen(mfen);
                for &ply in [0usize, 3, 11].iter() {
                    let (w, b) = (ev.evaluate(&s, Color::White, ply), ev.evaluate(&s, Color::Black, ply));
                    if w != -b {
                        out.ev(json!({"prop": "C13", "kind": "perspectives not negations", "fen": fen, "ply": ply, "white": i32::from(w), "black": i32::from(b)}));
                    }
                    let (mw, mb) = (ev.evaluate(&ms, Color::White, ply), ev.evaluate(&ms, Color::Black, ply));
                    if w != mb || b != mw {
                        out.ev(json!({"prop": "C13", "kind": "mirror image scored differently", "fen": fen, "mirror": mfen, "ply": ply, "white": i32::from(w), "mirror_black": i32::from(mb)}));
                    }
                }
            }
            if g["imb"].as_u64().unwrap() < 900 {
                for &ply in plies.iter() {
                    for persp in [Color::White, Color::Black] {
                        let s3 = s.clone();
                        n_eval += 1;
                        match guarded(std::panic::AssertUnwindSafe(|| ev.evaluate(&s3, persp, ply))) {
                            Err(msg) => out.ev(json!({"prop": "C05", "kind": "evaluator panicked", "fen": fen, "msg": msg})),
                            Ok(e) => {
                                let ok = match st {
                                    "mate" => e == if persp == s.turn_to_move() { -Evaluation::mate_in_ply(ply) } else { Evaluation::mate_in_ply(ply) },
                                    "stalemate" => e == Evaluation::EVEN,
                                    _ => !e.is_terminal(),
                                };
                                if !ok {
                                    out.ev(json!({"prop": "C05", "kind": match st { "mate" => "checkmate not scored as mate", "stalemate" => "stalemate not scored zero", _ => "position with legal moves scored terminal" },
                                                  "fen": fen, "persp": color_letter(persp), "ply": ply, "score": i32::from(e)}));
                                }
                            }
                        }
                    }
                }
            }
            if samples.len() < 3 && (st != "open" || got.len() > 3) && n_pos % 97 == 1 {
                samples.push(json!({"fen": fen, "status": st, "expected_moves": em}));
            }
        }
    }
    out.finish();
    println!("{}", json!({"positions": n_pos, "moves": n_moves, "mates": n_mate, "stalemates": n_stale, "castle_moves": n_castle,
                          "ep_moves": n_ep, "promotion_moves": n_promo, "checks": n_check, "evaluations": n_eval, "samples": samples}));
}
