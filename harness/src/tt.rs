//! C15 drivers: TLC-generated operation sequences and concurrent hammering of the real table.
use rand::{Rng, SeedableRng};
use rand_chacha::ChaCha8Rng;
use serde_json::{json, Value};
use std::sync::Arc;
use weechess_engine::searcher::verif;
use wv::*;

/// Re-orders raw hook lines per sub-table by the in-lock version counter (inserts of a version
/// before the finds that saw it) and rewrites them into TTTrace events.
fn linearise(lines: Vec<String>, ids: &[usize], out: &mut Out) -> (usize, usize) {
    let mut evs: Vec<(usize, u64, u8, usize, Value)> = vec![];
    for (i, l) in lines.iter().enumerate() {
        let v: Value = serde_json::from_str(l).expect("hook line");
        let kind = v["ev"].as_str().unwrap().to_string();
        if kind != "Insert" && kind != "Find" && kind != "Used" { continue; }
        let id = v["table"].as_u64().unwrap() as usize;
        let Some(t) = ids.iter().position(|x| *x == id) else { continue };
        let ver = v["version"].as_u64().unwrap();
        let order = if kind == "Insert" { 0 } else { 1 };
        evs.push((t, ver, order, i, v));
    }
    evs.sort_by(|a, b| (a.0, a.1, a.2, a.3).cmp(&(b.0, b.1, b.2, b.3)));
    let (mut ni, mut nf) = (0, 0);
    for (t, _, _, _, v) in evs {
        let kind = v["ev"].as_str().unwrap();
        match kind {
            "Insert" => {
                ni += 1;
                let key = u64::from_str_radix(v["key"].as_str().unwrap(), 16).unwrap();
                out.ev(json!({"ev": "Insert", "t": t, "version": v["version"], "key": key_json(key), "val": v["entry"]["depth"], "used": v["used"], "w": v["w"]}));
            }
            "Find" => {
                nf += 1;
                let key = u64::from_str_radix(v["key"].as_str().unwrap(), 16).unwrap();
                let hit = v["hit"].as_bool().unwrap();
                let whole = if hit {
                    // every field of the stored entry must derive from the one value (see verif::Table)
                    let d = v["entry"]["depth"].as_u64().unwrap();
                    v["entry"]["max"].as_u64().unwrap() == d + 1 + (d / 3) % 7 && v["entry"]["eval"].as_i64().unwrap() == d as i64
                } else { true };
                out.ev(json!({"ev": "Find", "t": t, "version": v["version"], "key": key_json(key), "hit": hit, "val": if hit { v["entry"]["depth"].clone() } else { json!(-1) }, "whole": whole, "w": v["w"]}));
            }
            _ => out.ev(json!({"ev": "Used", "t": t, "version": v["version"], "used": v["used"], "max": v["max"]})),
        }
    }
    (ni, nf)
}

/// Model keys >= 100 stand for real keys that share their low 32 bits with model key k-100
/// (6 * 2^32 keeps the residues modulo 2 and 3, i.e. the routing of the generated sequences).
fn real_key(k: u64) -> u64 {
    if k >= 100 { (k - 100) + 6 * (1u64 << 32) } else { k }
}

fn key_json(key: u64) -> Value {
    assert!(key & 0xffff_ffff < (1 << 31));
    json!({"hi": key >> 32, "lo": key & 0xffff_ffff})
}

fn run_ops(table: &verif::Table, ops: &[Value]) {
    for o in ops {
        let k = real_key(o["k"].as_u64().unwrap());
        match o["op"].as_str().unwrap() {
            "ins" => table.insert(k, o["v"].as_u64().unwrap() as u32),
            "find" => { let _ = table.find(k); }
            _ => { let _ = table.entries(); }
        }
    }
}

/// wv tt-seq --in ttgen.out --out trace.ndjson [--threads]: behaviours of TTGen on the real table.
pub fn seq(args: &Args) {
    quiet_panics();
    let inputs: Vec<&str> = args.get("--in").expect("--in").split(',').collect();
    let mut out = Out::new(args.get("--out"));
    let s = verif::Table::bucket_size();
    let (mut nb, mut nops, mut ni, mut nf) = (0usize, 0usize, 0usize, 0usize);
    for path in inputs {
        for g in tlc_payloads(path, "GEN") {
            let (t, b) = (g["T"].as_u64().unwrap() as usize, g["B"].as_u64().unwrap() as usize);
            let ops = g["ops"].as_array().unwrap().clone();
            for threaded in [false, true] {
                nb += 1;
                nops += ops.len();
                let table = Arc::new(verif::Table::new(t, b));
                let ids = table.table_ids();
                verif::set_logging(true, false);
                let _ = verif::take_log();
                if !threaded {
                    verif::set_thread_tag(0);
                    run_ops(&table, &ops);
                    verif::flush();
                } else {
                    let mut ths: Vec<u64> = ops.iter().map(|o| o["th"].as_u64().unwrap()).collect();
                    ths.sort();
                    ths.dedup();
                    let handles: Vec<_> = ths.into_iter().map(|th| {
                        let mine: Vec<Value> = ops.iter().filter(|o| o["th"].as_u64().unwrap() == th).cloned().collect();
                        let table = table.clone();
                        std::thread::spawn(move || { verif::set_thread_tag(th as usize); run_ops(&table, &mine); verif::flush(); })
                    }).collect();
                    for h in handles { h.join().unwrap(); }
                }
                let lines = verif::take_log();
                verif::set_logging(false, false);
                out.ev(json!({"ev": "New", "T": t, "B": b, "S": s, "threaded": threaded}));
                let (a, c) = linearise(lines, &ids, &mut out);
                ni += a;
                nf += c;
                // the public totals, read when nothing runs
                out.ev(json!({"ev": "Total", "total": table.entries(), "max": table.max_entries()}));
            }
        }
    }
    out.finish();
    println!("{}", json!({"behaviours": nb, "ops": nops, "inserts": ni, "finds": nf}));
}

/// wv tt-own --threads n --ops m --seed s --tables T --buckets B: every thread works on keys only it uses, in a table whose
/// buckets can never fill; the per-thread call logs (program order, results) are judged for read-your-writes.
pub fn own(args: &Args) {
    quiet_panics();
    let threads: usize = args.num("--threads", 8);
    let nops: usize = args.num("--ops", 300);
    let seed: u64 = args.num("--seed", 1);
    let t: usize = args.num("--tables", 1);
    let b: usize = args.num("--buckets", 64);
    let per: usize = 4;
    let mut out = Out::new(args.get("--out"));
    let table = Arc::new(verif::Table::new(t, b));
    // keys th*per+j spread over the buckets; at most 8 keys may share a bucket
    let mut load = std::collections::HashMap::new();
    for k in 0..(threads * per) as u64 { *load.entry((k % t as u64, k % b as u64)).or_insert(0usize) += 1; }
    assert!(load.values().all(|n| *n <= verif::Table::bucket_size()), "bucket could fill");
    let handles: Vec<_> = (0..threads).map(|th| {
        let table = table.clone();
        std::thread::spawn(move || {
            let mut rng = ChaCha8Rng::seed_from_u64(seed * 7919 + th as u64);
            let mut calls = vec![];
            for i in 0..nops {
                let k = (th * per + rng.gen_range(0..per)) as u64;
                if rng.gen_bool(0.5) {
                    let v = (th * 100_000 + i) as u32;
                    table.insert(k, v);
                    calls.push(json!({"op": "ins", "key": key_json(k), "val": v, "hit": true}));
                } else {
                    match table.find(k) {
                        Some((v, _)) => calls.push(json!({"op": "find", "key": key_json(k), "val": v, "hit": true})),
                        None => calls.push(json!({"op": "find", "key": key_json(k), "val": 0, "hit": false})),
                    }
                }
            }
            (th, calls)
        })
    }).collect();
    let mut n = 0;
    for h in handles {
        let (th, calls) = h.join().unwrap();
        n += calls.len();
        out.ev(json!({"ev": "Own", "th": th, "T": t, "B": b, "calls": calls}));
    }
    out.ev(json!({"ev": "OwnTotal", "total": table.entries(), "max": table.max_entries(), "keys": threads * per}));
    out.finish();
    println!("{}", json!({"threads": threads, "calls": n}));
}

/// wv tt-hammer --threads n --ops m --seed s --tables T --buckets B --pattern uniform|collide|aligned
pub fn hammer(args: &Args) {
    quiet_panics();
    let threads: usize = args.num("--threads", 8);
    let nops: usize = args.num("--ops", 400);
    let seed: u64 = args.num("--seed", 1);
    let t: usize = args.num("--tables", 2);
    let b: usize = args.num("--buckets", 2);
    let pattern = args.get("--pattern").unwrap_or("collide").to_string();
    let mut out = Out::new(args.get("--out"));
    let table = Arc::new(verif::Table::new(t, b));
    let ids = table.table_ids();
    let nkeys = 14usize;
    let keys: Vec<u64> = match pattern.as_str() {
        // all keys in one bucket of one sub-table
        "aligned" => (0..nkeys as u64).map(|i| 1 + i * (t * b) as u64).collect(),
        // two buckets
        "collide" => (0..nkeys as u64).map(|i| (i % 2) + (i / 2) * (t * b) as u64 * 2).collect(),
        // pairs of keys that agree in their low 32 bits (and in their low 48 bits) but are different keys
        "highbits" => (0..nkeys as u64).map(|i| (1 + (i / 3) * (t * b) as u64) + [0u64, 1 << 32, 1 << 48][(i % 3) as usize] * (t * b) as u64).collect(),
        _ => { let mut r = ChaCha8Rng::seed_from_u64(seed ^ 99); (0..nkeys).map(|_| r.gen_range(0..1_000_000u64)).collect() }
    };
    verif::set_logging(true, false);
    let _ = verif::take_log();
    let handles: Vec<_> = (0..threads).map(|th| {
        let table = table.clone();
        let keys = keys.clone();
        std::thread::spawn(move || {
            verif::set_thread_tag(th);
            let mut rng = ChaCha8Rng::seed_from_u64(seed * 1000 + th as u64);
            for i in 0..nops {
                let k = keys[rng.gen_range(0..keys.len())];
                match rng.gen_range(0..10) {
                    0..=3 => table.insert(k, (th * 100_000 + i) as u32),   // values distinguishable per thread
                    4..=8 => { let _ = table.find(k); }
                    _ => { let _ = table.entries(); }
                }
            }
            verif::flush();
        })
    }).collect();
    for h in handles { h.join().unwrap(); }
    let lines = verif::take_log();
    verif::set_logging(false, false);
    out.ev(json!({"ev": "New", "T": t, "B": b, "S": verif::Table::bucket_size(), "threaded": true}));
    let (ni, nf) = linearise(lines, &ids, &mut out);
    out.ev(json!({"ev": "Total", "total": table.entries(), "max": table.max_entries()}));
    out.finish();
    println!("{}", json!({"threads": threads, "inserts": ni, "finds": nf, "keys": keys}));
}
