//! Random legal play from corpus positions, logging what the implementation says about every
//! position visited: one event stream per concern (all from the same walk).
use rand::{Rng, SeedableRng};
use rand_chacha::ChaCha8Rng;
use serde_json::{json, Value};
use weechess_core::notation::{into_notation, try_from_notation, Fen};
use weechess_core::*;
use weechess_engine::eval::{Evaluation, Evaluator};
use wv::*;

fn mirror_pos(v: &Value) -> Value {
    let b = v["board"].as_array().unwrap();
    let mut nb = vec![Value::Null; 64];
    for sq in 0..64usize {
        let src = (7 - sq / 8) * 8 + sq % 8;
        let s = b[src].as_str().unwrap();
        let c = s.chars().next().unwrap();
        let m = if c.is_ascii_uppercase() { c.to_ascii_lowercase() } else { c.to_ascii_uppercase() };
        nb[sq] = Value::String(m.to_string());
    }
    let castle: Vec<String> = v["castle"].as_array().unwrap().iter().map(|c| {
        let c = c.as_str().unwrap().chars().next().unwrap();
        (if c.is_ascii_uppercase() { c.to_ascii_lowercase() } else { c.to_ascii_uppercase() }).to_string()
    }).collect();
    let ep = v["ep"].as_u64().unwrap();
    let mep = if ep == 0 { 0 } else { let z = ep - 1; (7 - z / 8) * 8 + z % 8 + 1 };
    json!({"board": nb, "stm": if v["stm"] == "w" { "b" } else { "w" }, "castle": castle, "ep": mep,
           "half": v["half"], "full": v["full"]})
}

pub fn eval_scores(ev: &Evaluator, s: &State, plies: &[usize]) -> Value {
    let mut out = vec![];
    for &ply in plies {
        for persp in [Color::White, Color::Black] {
            let s2 = s.clone();
            let r = guarded(std::panic::AssertUnwindSafe(|| ev.evaluate(&s2, persp, ply)));
            match r {
                Ok(e) => out.push(json!({"persp": color_letter(persp), "ply": ply, "score": i32::from(e), "terminal": e.is_terminal()})),
                Err(msg) => out.push(json!({"persp": color_letter(persp), "ply": ply, "panic": msg})),
            }
        }
    }
    Value::Array(out)
}

pub fn attack_ops(rng: &mut ChaCha8Rng, board: &Board, n_ops: usize) -> Value {
    // a fresh object (caches unset) built from the projection of `board`
    let map: weechess_core::utils::ArrayMap<Square, PieceIndex> = board.into();
    let mut objs: Vec<Board> = vec![Board::from(&map)];
    let mut ops = vec![];
    // first the live object itself, exactly as the move application produced it (whatever it inherited from its parent)
    let live_first = rng.gen_range(0..3);
    for k in 0..3 {
        for color in [Color::Black, Color::White] {
            match (k + live_first) % 3 {
                0 => ops.push(json!({"op": "check", "obj": 99, "color": color_letter(color), "ans": json!(if board.is_check(color) { [1] } else { [0] })})),
                1 => ops.push(json!({"op": "pawn", "obj": 99, "color": color_letter(color), "ans": bb_squares(board.colored_pawn_attacks(color))})),
                _ => ops.push(json!({"op": "all", "obj": 99, "color": color_letter(color), "ans": bb_squares(board.colored_attacks(color))})),
            }
        }
    }
    for _ in 0..n_ops {
        let o = rng.gen_range(0..objs.len());
        match rng.gen_range(0..8) {
            0 if objs.len() < 4 => {
                let c = objs[o].clone();
                objs.push(c);
                ops.push(json!({"op": "clone", "src": o, "dst": objs.len() - 1}));
            }
            k => {
                let color = if rng.gen_bool(0.5) { Color::White } else { Color::Black };
                let (q, ans) = match k % 3 {
                    0 => ("all", bb_squares(objs[o].colored_attacks(color))),
                    1 => ("pawn", bb_squares(objs[o].colored_pawn_attacks(color))),
                    _ => ("check", json!(if objs[o].is_check(color) { [1] } else { [0] })),
                };
                ops.push(json!({"op": q, "obj": o, "color": color_letter(color), "ans": ans}));
            }
        }
    }
    // every (query, colour) at least once, on the last object
    let last = objs.len() - 1;
    for color in [Color::White, Color::Black] {
        ops.push(json!({"op": "all", "obj": last, "color": color_letter(color), "ans": bb_squares(objs[last].colored_attacks(color))}));
        ops.push(json!({"op": "pawn", "obj": last, "color": color_letter(color), "ans": bb_squares(objs[last].colored_pawn_attacks(color))}));
        ops.push(json!({"op": "check", "obj": last, "color": color_letter(color), "ans": json!(if objs[last].is_check(color) { [1] } else { [0] })}));
    }
    json!({"ev": "AttackOps", "board": board_json(board), "ops": ops})
}

pub fn hashes_of(s: &State, seeds: &[u64]) -> Vec<String> {
    // the order in which the hashers meet a State value rotates from call to call: a key must not depend on which hasher
    // saw the value (or a value it was cloned from) first
    static TURN: std::sync::atomic::AtomicUsize = std::sync::atomic::AtomicUsize::new(0);
    let k = TURN.fetch_add(1, std::sync::atomic::Ordering::Relaxed);
    let mut out = vec![String::new(); seeds.len()];
    for j in 0..seeds.len() {
        let i = (j + k) % seeds.len();
        let h = ZobristHasher::with(&mut ChaCha8Rng::seed_from_u64(seeds[i])).hash(s);
        out[i] = format!("{:016x}", h);
    }
    out
}

pub struct HashRec { pub pos: Value, pub ident: String, pub h: Vec<String> }

pub fn hash_rec(s: &State, seeds: &[u64]) -> HashRec {
    let p = pos_json(s);
    let ident = format!("{}|{}|{}|{}", p["board"], p["stm"], p["castle"], p["ep"]);
    HashRec { pos: p, ident, h: hashes_of(s, seeds) }
}

/// Candidate pairs among the met positions: every pair the two clauses of C08 could fail on
/// (same hash with different identity; same identity), plus neighbours as controls.
pub fn hash_pairs(recs: &[HashRec], out: &mut Out) {
    use std::collections::HashMap;
    let pair = |a: &HashRec, b: &HashRec, why: &str| json!({"ev": "HashPair", "why": why, "p": a.pos, "q": b.pos, "hp": a.h, "hq": b.h});
    let mut by_ident: HashMap<&str, usize> = HashMap::new();
    for (i, r) in recs.iter().enumerate() {
        match by_ident.get(r.ident.as_str()) {
            Some(&j) => { if recs[j].pos != r.pos || recs[j].h != r.h { out.ev(pair(&recs[j], r, "same-identity")); } }
            None => { by_ident.insert(&r.ident, i); }
        }
    }
    let nseeds = recs.first().map(|r| r.h.len()).unwrap_or(0);
    for k in 0..nseeds {
        let mut by_hash: HashMap<&str, usize> = HashMap::new();
        for (i, r) in recs.iter().enumerate() {
            match by_hash.get(r.h[k].as_str()) {
                Some(&j) => { if recs[j].ident != r.ident { out.ev(pair(&recs[j], r, "same-hash")); } }
                None => { by_hash.insert(&r.h[k], i); }
            }
        }
    }
    for w in recs.windows(2) {
        if w[0].ident != w[1].ident { out.ev(pair(&w[0], &w[1], "neighbours")); }
    }
}

/// Plays two move orders that may transpose and records both end positions.
pub fn transposition_probe(rng: &mut ChaCha8Rng, s: &State, seeds: &[u64], recs: &mut Vec<HashRec>) {
    let pick = |rng: &mut ChaCha8Rng, st: &State| -> Option<(Move, State)> {
        let ms = MoveGenerator::compute_legal_moves(st);
        if ms.is_empty() { return None; }
        let MoveResult(m, ns) = ms.moves()[rng.gen_range(0..ms.moves().len())].clone();
        Some((m, ns))
    };
    let Some((m1, s1)) = pick(rng, s) else { return };
    let Some((r1, s2)) = pick(rng, &s1) else { return };
    let Some((m2, s3)) = pick(rng, &s2) else { return };
    let Some((r2, s4)) = pick(rng, &s3) else { return };
    let q = |m: &Move| { let mut q = MoveQuery::by_moving_from_to(m.origin(), m.destination()); if let Some(p) = m.promotion() { q.set_promotion(p); } q };
    for order in [[&m2, &r1, &m1, &r2], [&m1, &r2, &m2, &r1], [&m2, &r2, &m1, &r1]] {
        let qs: Vec<MoveQuery> = order.iter().map(|m| q(m)).collect();
        if let Ok(t) = State::by_performing_moves(s, &qs) {
            recs.push(hash_rec(&s4, seeds));
            recs.push(hash_rec(&t, seeds));
        }
    }
}

pub fn fen_event(s: &State, ev: &Evaluator) -> Value {
    let text = into_notation::<_, Fen>(s).to_string();
    let t2 = text.clone();
    let re = guarded(move || try_from_notation::<State, Fen>(&t2));
    match re {
        Err(msg) => json!({"ev": "Fen", "pos": pos_json(s), "text": chars_json(&text), "panic": msg}),
        Ok(Err(())) => json!({"ev": "Fen", "pos": pos_json(s), "text": chars_json(&text), "parsed": false}),
        Ok(Ok(r)) => {
            let text2 = into_notation::<_, Fen>(&r).to_string();
            let m1: Vec<u32> = { let mut v: Vec<u32> = MoveGenerator::compute_legal_moves(s).moves().iter().map(|m| m.0.as_raw()).collect(); v.sort(); v };
            let m2: Vec<u32> = { let mut v: Vec<u32> = MoveGenerator::compute_legal_moves(&r).moves().iter().map(|m| m.0.as_raw()).collect(); v.sort(); v };
            let hasher = ZobristHasher::with(&mut ChaCha8Rng::seed_from_u64(7));
            let same_eval = [Color::White, Color::Black].iter().all(|c| ev.evaluate(s, *c, 3) == ev.evaluate(&r, *c, 3));
            json!({"ev": "Fen", "pos": pos_json(s), "text": chars_json(&text), "parsed": true, "reparsed": pos_json(&r),
                   "text2": chars_json(&text2), "same_moves": m1 == m2, "same_hash": hasher.hash(s) == hasher.hash(&r),
                   "same_eval": same_eval, "same_state": *s == r})
        }
    }
}

pub fn eval_event(s: &State, ev: &Evaluator, plies: &[usize]) -> Value {
    let p = pos_json(s);
    let mp = mirror_pos(&p);
    let ms = state_of(&mp);
    json!({"ev": "Eval", "pos": p, "scores": eval_scores(ev, s, plies), "mirror": mp, "mscores": eval_scores(ev, &ms, plies)})
}

/// All coordinate triples the resolver accepts / finds ambiguous in `s` (everything else is
/// "unknown"), each applied through State::by_performing_moves.
pub fn perform_all(s: &State) -> Value {
    let promos: [(Option<Piece>, &str); 5] = [(None, "."), (Some(Piece::Queen), "Q"), (Some(Piece::Rook), "R"), (Some(Piece::Bishop), "B"), (Some(Piece::Knight), "N")];
    let mut ok = vec![];
    let mut amb = vec![];
    let mut unknown = 0usize;
    let mut other = vec![];
    for from in Square::ALL {
        for to in Square::ALL {
            for (pp, pl) in promos.iter() {
                let mut q = MoveQuery::by_moving_from_to(*from, *to);
                if let Some(pp) = pp { q.set_promotion(*pp); }
                let s2 = s.clone();
                match guarded(move || State::by_performing_moves(&s2, &[q])) {
                    Ok(Ok(ns)) => ok.push(json!({"from": sq_num(*from), "to": sq_num(*to), "promo": pl, "next": pos_json(&ns)})),
                    Ok(Err(MovePerformError::AmbiguousMove)) => amb.push(json!([sq_num(*from), sq_num(*to), pl])),
                    Ok(Err(MovePerformError::UnknownMove)) => unknown += 1,
                    Ok(Err(e)) => other.push(json!([sq_num(*from), sq_num(*to), pl, format!("{:?}", e)])),
                    Err(msg) => other.push(json!([sq_num(*from), sq_num(*to), pl, msg])),
                }
            }
        }
    }
    json!({"ev": "PerformAll", "ok": ok, "ambiguous": amb, "unknown": unknown, "other": other, "unchanged": *s == s.clone()})
}

pub fn run(args: &Args) {
    quiet_panics();
    let seed: u64 = args.num("--seed", 1);
    let games: usize = args.num("--games", 10);
    let plies: usize = args.num("--plies", 100);
    let prefix = args.get("--out-prefix").expect("--out-prefix");
    let emit: Vec<&str> = args.get("--emit").unwrap_or("move").split(',').collect();
    let perform_every: usize = args.num("--perform-every", 25);
    let corpus = args.get("--corpus").map(read_lines).unwrap_or_default();
    let has = |k: &str| emit.contains(&k);
    let mut rng = ChaCha8Rng::seed_from_u64(seed);
    let ev = Evaluator::default();
    let mut o_move = if has("move") { Some(Out::new(Some(&format!("{}.move.ndjson", prefix)))) } else { None };
    let mut o_att = if has("attacks") { Some(Out::new(Some(&format!("{}.attacks.ndjson", prefix)))) } else { None };
    let mut o_hash = if has("hash") { Some(Out::new(Some(&format!("{}.hash.ndjson", prefix)))) } else { None };
    let mut o_fen = if has("fen") { Some(Out::new(Some(&format!("{}.fen.ndjson", prefix)))) } else { None };
    let mut o_eval = if has("eval") { Some(Out::new(Some(&format!("{}.eval.ndjson", prefix)))) } else { None };
    let plies_list = [0usize, 1, 2, 9, 10, 11, 64];
    let mut visited = 0usize;
    let hash_seeds = [1u64, 0xdead_beef, seed];
    let mut hashrecs: Vec<HashRec> = vec![];
    if let Some(o) = o_eval.as_mut() {
        let mate: Vec<i32> = (0..=64usize).map(|k| i32::from(Evaluation::mate_in_ply(k))).collect();
        let mt: Vec<bool> = (0..=64usize).map(|k| Evaluation::mate_in_ply(k).is_terminal()).collect();
        let nt: Vec<bool> = (0..=64usize).map(|k| (-Evaluation::mate_in_ply(k)).is_terminal()).collect();
        // the terminal threshold, observed: smallest positive score that is_terminal accepts
        let mut thr = 0i32;
        while !Evaluation::from(thr).is_terminal() && thr < 10_000_000 { thr += 1; }
        o.ev(json!({"ev": "EvalConsts", "mate": mate, "mate_terminal": mt, "negmate_terminal": nt, "threshold": thr,
                    "neg_threshold_terminal": Evaluation::from(-thr).is_terminal(), "below_terminal": Evaluation::from(thr - 1).is_terminal()}));
    }
    for g in 0..games {
        let mut s = if corpus.is_empty() { state_of_fen("rnbqkbnr/pppppppp/8/8/8/8/PPPPPPPP/RNBQKBNR w KQkq - 0 1") } else { state_of_fen(&corpus[g % corpus.len()]) };
        if let Some(o) = o_move.as_mut() { o.ev(json!({"ev": "Reset", "pos": pos_json(&s)})); }
        for _ in 0..plies {
            visited += 1;
            if let Some(o) = o_att.as_mut() { o.ev(attack_ops(&mut rng, s.board(), 8)); }
            if o_hash.is_some() {
                hashrecs.push(hash_rec(&s, &hash_seeds));
                if visited % 3 == 0 { transposition_probe(&mut rng, &s, &hash_seeds, &mut hashrecs); }
            }
            if let Some(o) = o_fen.as_mut() { o.ev(fen_event(&s, &ev)); }
            if let Some(o) = o_eval.as_mut() { o.ev(eval_event(&s, &ev, &plies_list)); }
            let s2 = s.clone();
            let ms = match guarded(move || MoveGenerator::compute_legal_moves(&s2)) {
                Ok(ms) => ms,
                Err(msg) => { if let Some(o) = o_move.as_mut() { o.ev(json!({"ev": "Panic", "where": "compute_legal_moves", "msg": msg})); } break; }
            };
            let list: Vec<Value> = ms.moves().iter().map(|r| mv_json(&r.0)).collect();
            if has("perform") && visited % perform_every == 1 {
                if let Some(o) = o_move.as_mut() { o.ev(perform_all(&s)); }
            }
            if ms.is_empty() {
                if let Some(o) = o_move.as_mut() { o.ev(json!({"ev": "Terminal", "moves": list, "check": s.is_check()})); }
                break;
            }
            let special: Vec<usize> = ms.moves().iter().enumerate()
                .filter(|(_, r)| r.0.is_en_passant() || r.0.is_any_castle() || r.0.is_promotion() || r.0.is_double_pawn() || (r.0.is_capture() && r.0.capture() == Some(Piece::Rook)))
                .map(|(i, _)| i).collect();
            let i = if !special.is_empty() && rng.gen_bool(0.4) { special[rng.gen_range(0..special.len())] } else { rng.gen_range(0..ms.moves().len()) };
            let MoveResult(m, ns) = ms.moves()[i].clone();
            if let Some(o) = o_move.as_mut() {
                o.ev(json!({"ev": "Move", "moves": list, "mv": mv_json(&m), "next": pos_json(&ns), "check": s.is_check()}));
            }
            s = ns;
        }
    }
    if let Some(o) = o_hash.as_mut() { hash_pairs(&hashrecs, o); }
    for o in [o_move, o_att, o_hash, o_fen, o_eval].into_iter().flatten() { o.finish(); }
    println!("{}", json!({"visited": visited}));
}
