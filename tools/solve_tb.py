#!/usr/bin/env python3
"""Untrusted retrograde solver for the 3-man families K+X v K (X = R or Q, White attacking).
It only *proposes* a table; spec/TbCheck.tla checks every entry against Chess.tla.
Table layout: code[stm*262144 + wk*4096 + bk*64 + x] (0-based squares);
code 0 = not a legal family position, 1 = draw, n+2 = decided in n plies (White to move: win, Black to move: loss)."""
import json, sys, time

piece = sys.argv[1]   # R or Q
outp = sys.argv[2]
t0 = time.time()
def fr(s): return s % 8, s // 8
KING = [[] for _ in range(64)]
for s in range(64):
    f, r = fr(s)
    for df in (-1, 0, 1):
        for dr in (-1, 0, 1):
            if (df or dr) and 0 <= f + df < 8 and 0 <= r + dr < 8:
                KING[s].append((r + dr) * 8 + f + df)
KSET = [set(x) for x in KING]
DIRS = [(1, 0), (-1, 0), (0, 1), (0, -1)] + ([(1, 1), (1, -1), (-1, 1), (-1, -1)] if piece == "Q" else [])
RAYS = [[] for _ in range(64)]
for s in range(64):
    f, r = fr(s)
    for df, dr in DIRS:
        ray = []; ff, rr = f + df, r + dr
        while 0 <= ff < 8 and 0 <= rr < 8:
            ray.append(rr * 8 + ff); ff += df; rr += dr
        RAYS[s].append(ray)
def att(x, occ):
    out = set()
    for ray in RAYS[x]:
        for q in ray:
            out.add(q)
            if q in occ: break
    return out
def idx(stm, wk, bk, x): return stm * 262144 + wk * 4096 + bk * 64 + x
N = 2 * 262144
code = [0] * N
succ = {}
legal = []
for wk in range(64):
    for bk in range(64):
        if bk == wk or bk in KSET[wk]: continue
        for x in range(64):
            if x in (wk, bk): continue
            xatt = att(x, {wk, bk})
            if bk not in xatt:                     # White to move: Black must not be in check
                i = idx(0, wk, bk, x); legal.append(i)
                ss = []
                for t in KING[wk]:
                    if t == x or t in KSET[bk] or t == bk: continue
                    ss.append(idx(1, t, bk, x))
                for ray in RAYS[x]:
                    for q in ray:
                        if q == wk or q == bk: break
                        ss.append(idx(1, wk, bk, q))
                succ[i] = ss
            i = idx(1, wk, bk, x); legal.append(i)
            ss = []
            for t in KING[bk]:
                if t in KSET[wk] or t == wk: continue
                if t == x:
                    ss.append(-1); continue           # captures the unprotected piece: K v K, draw
                if t in att(x, {wk}): continue
                ss.append(idx(0, wk, t, x))
            succ[i] = ss
            if not ss:
                code[i] = 2 if bk in xatt else 1
und = [i for i in legal if code[i] == 0]
n = 1
while True:
    newly = []
    if n % 2 == 1:
        for i in und:
            if i < 262144 and any(j >= 0 and code[j] == n - 1 + 2 for j in succ[i]): newly.append(i)
    else:
        for i in und:
            if i >= 262144:
                ss = succ[i]
                if ss and all(j >= 0 and code[j] >= 3 and (code[j] - 2) % 2 == 1 and code[j] - 2 <= n - 1 for j in ss): newly.append(i)
    for i in newly: code[i] = n + 2
    if newly: und = [i for i in und if code[i] == 0]
    if not newly and n > 40: break
    n += 1
for i in und: code[i] = 1
json.dump({"piece": piece, "tb": code}, open(outp, "w"))
print("solved K%sK: %d legal positions, longest %d plies, %.1fs" % (piece, len(legal), max(code) - 2, time.time() - t0))
