"""Orchestration helpers shared by every check: build the harness from /repo's working tree,
run TLC (direct java, serial GC, one worker per process, many processes), collect DIAG lines,
match them against known findings, write evidence, print the verdict lines."""
import fcntl
import json
import os
import re
import shutil
import subprocess
import sys
import time
from concurrent.futures import ThreadPoolExecutor

ROOT = os.path.dirname(os.path.dirname(os.path.abspath(__file__)))
SPEC = os.path.join(ROOT, "spec")
HARNESS = os.path.join(ROOT, "harness")
WORK = os.path.join(ROOT, "work")
EVID = os.path.join(ROOT, "evidence")
REPLAY = os.path.join(ROOT, "work", "replay")
CORPUS = os.path.join(ROOT, "corpus")
REPO = os.environ.get("WV_REPO", "/repo")
JAR = "/opt/veriftools/tla/tla2tools.jar:/opt/veriftools/tla/CommunityModules-deps.jar"
NPROC = int(os.environ.get("WV_PROCS", "14"))

T0 = time.time()


def log(*a):
    print("[wv %6.1fs]" % (time.time() - T0), *a, file=sys.stderr, flush=True)


_CURRENT = []      # the check in progress (so that a machinery failure cannot swallow violations already established)


def tool_error(msg):
    """Machinery failure (not a verdict about the code under test). Violations that were established before the
    failure are still reported (exit 1): a later part of a check breaking down does not un-find them."""
    print("TOOL-ERROR: " + msg, flush=True)
    if _CURRENT and _CURRENT[-1].violations and not getattr(_CURRENT[-1], "_finishing", False):
        _CURRENT[-1].notes.append("check incomplete: " + msg)
        _CURRENT[-1].finish()
    sys.exit(2)


def workdir(pid, clean=True):
    # one scratch directory per property and tier, so that a quick and a thorough run of the same check can coexist
    tier = os.environ.get("WV_TIER", "quick")
    d = os.path.join(WORK, pid if tier == "quick" else pid + "-" + tier)
    if clean and os.path.isdir(d):
        shutil.rmtree(d, ignore_errors=True)
    os.makedirs(d, exist_ok=True)
    os.makedirs(REPLAY, exist_ok=True)
    return d


class _Lock:
    def __init__(self, name):
        os.makedirs(WORK, exist_ok=True)
        self.path = os.path.join(WORK, name)

    def __enter__(self):
        self.f = open(self.path, "w")
        fcntl.flock(self.f, fcntl.LOCK_EX)

    def __exit__(self, *a):
        fcntl.flock(self.f, fcntl.LOCK_UN)
        self.f.close()


def cargo_env():
    env = dict(os.environ)
    env["CARGO_NET_OFFLINE"] = "true"
    env.pop("RUSTFLAGS", None)
    return env


def build(profile="release"):
    """Incremental build of the harness against /repo's current working tree (hooks on)."""
    t = time.time()
    with _Lock(".build.lock"):
        cmd = ["cargo", "build", "--offline", "-q"]
        if profile == "release":
            cmd.append("--release")
        r = subprocess.run(cmd, cwd=HARNESS, env=cargo_env(), capture_output=True, text=True)
        if r.returncode != 0:
            sys.stderr.write(r.stderr[-4000:])
            tool_error("harness build failed (profile %s)" % profile)
    log("harness build (%s) %.1fs" % (profile, time.time() - t))
    return os.path.join(HARNESS, "target", "release" if profile == "release" else "debug", "wv")


def build_cli():
    """The real `weechess` binary from /repo's working tree, hooks on, own target dir."""
    t = time.time()
    tdir = os.path.join(HARNESS, "target-cli")
    with _Lock(".build-cli.lock"):
        env = cargo_env()
        env["RUSTFLAGS"] = "--cfg weechess_verif"
        r = subprocess.run(["cargo", "build", "--offline", "-q", "--release", "-p", "weechess_cli",
                            "--manifest-path", os.path.join(REPO, "Cargo.toml"), "--target-dir", tdir],
                           env=env, cwd=REPO, capture_output=True, text=True)
        if r.returncode != 0:
            sys.stderr.write(r.stderr[-4000:])
            tool_error("cli build failed")
    log("cli build %.1fs" % (time.time() - t))
    return os.path.join(tdir, "release", "weechess")


def run(cmd, timeout=3600, **kw):
    r = subprocess.run(cmd, capture_output=True, text=True, timeout=timeout, **kw)
    return r


def wv(binary, args, timeout=3600):
    r = run([binary] + [str(a) for a in args], timeout=timeout)
    if r.returncode != 0:
        sys.stderr.write(r.stderr[-3000:])
        # a panic of the code under test in a place the harness does not guard is data, not a machinery failure
        m = re.search(r"panicked at ([^\n]*weechess-(?:core|engine|cli)[^\n]*)\n([^\n]*)", r.stderr) or \
            (re.search(r"wv-panic at ([^|\n]*weechess-(?:core|engine|cli)[^|\n]*)\| ([^\n]*)", r.stderr) if r.returncode == 101 else None)
        if m and _CURRENT:
            chk = _CURRENT[-1]
            chk.violation("|".join([chk.pid, "panic", m.group(1)[:120]]), "the code under test panicked while it was exercised for this property (wv %s): %s: %s" % (args[0], m.group(1)[:160], m.group(2)[:200]),
                          {"harness_command": [str(a) for a in args], "stderr_tail": r.stderr[-1500:]})
            chk.notes.append("check incomplete: harness command stopped by a panic of the code under test")
            chk.finish()
        tool_error("harness command failed: wv " + " ".join(str(a) for a in args[:6]))
    return r.stdout


# ---------------------------------------------------------------------------------- TLC

_DIAG = re.compile(r'^<<"(DIAG|SKIP|STAT|GEN)", "(.*)">>$')
_STATES = re.compile(r"(\d+) states generated, (\d+) distinct states found")


def _unescape(s):
    # TLC prints the string with \" and \\ escapes
    return s.replace('\\"', '"').replace("\\\\", "\\")


def tlc(module, cfg=None, trace=None, env=None, workers=1, deque=False, timeout=1800, xmx="3g",
        extra=None, tag=None, keep_stdout=False, stdout_path=None):
    """Runs TLC on spec/<module>.tla; returns dict with parsed outcome."""
    cfg = cfg or module
    tag = tag or ("%s-%d-%d" % (module, os.getpid(), int(time.time() * 1000) % 10 ** 9))
    meta = os.path.join(WORK, ".tlc", tag)
    shutil.rmtree(meta, ignore_errors=True)
    os.makedirs(meta, exist_ok=True)
    e = dict(os.environ)
    if trace:
        e["TRACE"] = trace
    if env:
        e.update({k: str(v) for k, v in env.items()})
    cmd = ["java", "-Xss512m", "-Xmx" + xmx, "-XX:+UseSerialGC" if workers == 1 else "-XX:+UseParallelGC"]
    if deque:
        cmd.append("-Dtlc2.tool.queue.IStateQueue=StateDeque")
    cmd += ["-cp", JAR, "tlc2.TLC", "-workers", str(workers), "-metadir", meta, "-noGenerateSpecTE",
            "-config", cfg + ".cfg"]
    if extra:
        cmd += extra
    cmd.append(module + ".tla")
    t = time.time()
    try:
        if stdout_path:
            with open(stdout_path, "w") as fo:
                r = subprocess.run(cmd, cwd=SPEC, env=e, stdout=fo, stderr=subprocess.STDOUT, timeout=timeout)
            rc = r.returncode
            # only the bookkeeping lines are parsed here; payload lines stay in the file
            out = subprocess.run(["grep", "-v", "-E", '^<<"(GEN)"', stdout_path], capture_output=True, text=True).stdout
        else:
            r = subprocess.run(cmd, cwd=SPEC, env=e, capture_output=True, text=True, timeout=timeout)
            out = r.stdout
            rc = r.returncode
    except subprocess.TimeoutExpired as ex:
        out = (ex.stdout or b"").decode("utf-8", "replace") if isinstance(ex.stdout, bytes) else (ex.stdout or "")
        rc = -9
    shutil.rmtree(meta, ignore_errors=True)
    res = {"rc": rc, "wall": time.time() - t, "diags": [], "skips": [], "stats": [], "gen": [],
           "accepted": None, "stuck": None, "states": 0, "distinct": 0, "error": None, "module": module, "trace": trace}
    for line in out.splitlines():
        m = _DIAG.match(line)
        if m:
            try:
                v = json.loads(_unescape(m.group(2)))
            except Exception:
                v = {"raw": m.group(2)}
            {"DIAG": res["diags"], "SKIP": res["skips"], "STAT": res["stats"], "GEN": res["gen"]}[m.group(1)].append(v)
            continue
        if line.startswith('<<"ACCEPTED"'):
            res["accepted"] = int(re.findall(r"\d+", line)[0])
        elif line.startswith('<<"STUCK"'):
            res["stuck"] = [int(x) for x in re.findall(r"\d+", line)]
        m = _STATES.search(line)
        if m:
            res["states"], res["distinct"] = int(m.group(1)), int(m.group(2))
        if line.startswith("Error:") and res["error"] is None:
            res["error"] = line
    if "is violated" in out or "Invariant" in out and "violated" in out:
        res["violated"] = True
    if keep_stdout or rc not in (0,) or res["error"]:
        res["stdout"] = out[-6000:]
    return res


def tlc_many(jobs, parallel=None):
    """jobs: list of kwargs for tlc(); runs them on a pool of single-worker TLC processes."""
    parallel = parallel or NPROC
    for i, j in enumerate(jobs):
        j.setdefault("tag", "%s-%d-%d" % (j.get("module"), os.getpid(), i))
    with ThreadPoolExecutor(max_workers=parallel) as ex:
        return list(ex.map(lambda kw: tlc(**kw), jobs))


def shard(path, nshards, boundary=None, header=None, max_events=None):
    """Splits an NDJSON trace into <= nshards files. With `boundary`, shards start at events of
    that kind only (streams whose events depend on the state carried from earlier events).
    `header`: event kind that must be repeated at the top of every shard."""
    lines = open(path).read().splitlines()
    if max_events:
        lines = lines[:max_events]
    head = []

    def is_ev(l, kind):
        return ('"ev":"%s"' % kind) in l[:4000] and json.loads(l).get("ev") == kind

    if header:
        head = [l for l in lines if is_ev(l, header)]
        lines = [l for l in lines if not is_ev(l, header)]
        if not head:
            tool_error("trace %s lacks its %s header event" % (path, header))
    groups = []
    if boundary:
        cur = []
        for l in lines:
            if is_ev(l, boundary) and cur:
                groups.append(cur)
                cur = []
            cur.append(l)
        if cur:
            groups.append(cur)
    else:
        groups = [[l] for l in lines]
    nshards = max(1, min(nshards, len(groups)))
    bins = [[0, []] for _ in range(nshards)]
    if boundary:
        # greedy balance by bytes
        for g in sorted(groups, key=lambda g: -sum(len(x) for x in g)):
            b = min(bins, key=lambda b: b[0])
            b[0] += sum(len(x) for x in g)
            b[1].append(g)
    else:
        per = (len(groups) + nshards - 1) // nshards
        for i, g in enumerate(groups):
            bins[i // per][1].append(g)
    out = []
    base = path[:-len(".ndjson")] if path.endswith(".ndjson") else path
    for i, (_, gs) in enumerate(bins):
        if not gs:
            continue
        p = "%s.s%02d.ndjson" % (base, i)
        with open(p, "w") as f:
            for l in head:
                f.write(l + "\n")
            for g in gs:
                for l in g:
                    f.write(l + "\n")
        out.append(p)
    return out


def read_events(path):
    return [json.loads(l) for l in open(path) if l.strip()]


# ---------------------------------------------------------------------------------- verdicts

def known_findings():
    p = os.path.join(ROOT, "known_findings.json")
    if os.path.exists(p):
        return json.load(open(p))
    return {"findings": [], "fixed": []}


class Check:
    def __init__(self, pid, tier, seed, level):
        self.pid, self.tier, self.seed, self.level = pid, tier, seed, level
        self.violations = []     # (key, description, replay_path)
        self.coverage = {}
        self.assumptions = []
        self.notes = []
        self.t0 = time.time()
        self._n = 0
        _CURRENT.append(self)
        # replay files of an earlier run of the same check and tier are stale
        import glob
        for f in glob.glob(os.path.join(REPLAY, "%s-%s-*.json" % (pid, tier))):
            try:
                os.remove(f)
            except OSError:
                pass

    def violation(self, key, what, replay_obj):
        """key: stable identification of the failing input; what: human text."""
        self._n += 1
        if self._n > 300:
            # a change that breaks everything: the first 300 cases have replay files, the rest are only counted
            self.violations.append((key, what, self.violations[-1][2]))
            return
        rp = os.path.join(REPLAY, "%s-%s-%03d.json" % (self.pid, self.tier, self._n))
        os.makedirs(REPLAY, exist_ok=True)
        with open(rp, "w") as f:
            json.dump({"property": self.pid, "key": key, "what": what, "case": replay_obj}, f)
        self.violations.append((key, what, rp))

    def add_tlc(self, results, what="trace shard"):
        """Folds TLC results into coverage; machinery failures abort as tool errors."""
        for r in results:
            if r["rc"] == -9:
                tool_error("TLC timed out on %s (%s)" % (r["module"], r.get("trace")))
            if r["error"] or r["rc"] not in (0,):
                sys.stderr.write(r.get("stdout", "")[-3000:])
                tool_error("TLC failed on %s (%s): %s" % (r["module"], r.get("trace"), r["error"]))
            if r["stuck"] is not None:
                tool_error("trace not consumed: %s stuck at %s" % (r.get("trace"), r["stuck"]))
            self.coverage["states"] = self.coverage.get("states", 0) + r["distinct"]
            self.coverage["transitions"] = self.coverage.get("transitions", 0) + r["states"]

    def finish(self):
        self._finishing = True
        kf = known_findings()
        known = {f["key"]: f for f in kf.get("findings", []) if f.get("property") == self.pid}
        unknown = []
        seen_known = set()
        for key, what, rp in self.violations:
            if key in known:
                if key not in seen_known:
                    print("KNOWN-FINDING: property=%s %s" % (self.pid, known[key].get("what", what)))
                    seen_known.add(key)
            else:
                unknown.append((key, what, rp))
        ev = {
            "property_id": self.pid, "tier": self.tier, "seed": self.seed, "level": self.level,
            "coverage": self.coverage, "assumptions": self.assumptions,
            "wall_s": round(time.time() - self.t0, 2), "violations": len(unknown),
        }
        if self.notes:
            ev["coverage"]["notes"] = self.notes
        if seen_known:
            ev["coverage"]["known_findings_seen"] = sorted(seen_known)
        os.makedirs(EVID, exist_ok=True)
        with open(os.path.join(EVID, self.pid + ".json"), "w") as f:
            json.dump(ev, f, indent=1)
        shown = set()
        for key, what, rp in unknown:
            if key in shown:
                continue
            shown.add(key)
            if len(shown) <= 25:
                print("VIOLATION property=%s replay=%s  # %s" % (self.pid, rp, what[:300]))
        if unknown:
            print("%s: %d violation(s), %d distinct" % (self.pid, len(unknown), len(shown)))
            sys.exit(1)
        if any(n.startswith("check incomplete") for n in self.notes):
            sys.exit(2)
        print("%s: ok (%s tier, %.0fs)" % (self.pid, self.tier, time.time() - self.t0))
        sys.exit(0)


# ---------------------------------------------------------------------------------- tablebases

def ensure_tb():
    """K+R v K and K+Q v K tables: proposed by the untrusted solver, accepted only after TLC has
    checked every entry against Chess.tla (spec/TbCheck.tla). Cached under work/tb with a stamp
    over the specification, the checker, the solver and the tables."""
    import hashlib
    d = os.path.join(WORK, "tb")
    os.makedirs(d, exist_ok=True)
    with _Lock(".tb.lock"):
        files = {"R": os.path.join(d, "krk.json"), "Q": os.path.join(d, "kqk.json")}

        def stamp():
            h = hashlib.sha256()
            for p in [os.path.join(SPEC, "Chess.tla"), os.path.join(SPEC, "TbCheck.tla"), os.path.join(ROOT, "tools", "solve_tb.py")] + list(files.values()):
                h.update(open(p, "rb").read())
            return h.hexdigest()
        sp = os.path.join(d, "verified.stamp")
        if all(os.path.exists(f) for f in files.values()) and os.path.exists(sp) and open(sp).read().strip() == stamp():
            return files
        t = time.time()
        for pc, f in files.items():
            r = run([sys.executable, os.path.join(ROOT, "tools", "solve_tb.py"), pc, f])
            if r.returncode != 0:
                tool_error("tablebase solver failed: " + r.stderr[-500:])
        jobs = []
        for pc, f in files.items():
            for i in range(16):
                jobs.append(dict(module="TbCheck", env={"PIECE": pc, "TBFILE": f, "WK0": i * 4, "WKN": 4}, xmx="3g", timeout=3000, keep_stdout=True))
        res = tlc_many(jobs, parallel=16)
        states = 0
        for r in res:
            if r["rc"] != 0 or r["error"]:
                sys.stderr.write(r.get("stdout", "")[-3000:])
                tool_error("tablebase rejected by TbCheck.tla: %s" % r["error"])
            states += r["distinct"]
        with open(sp, "w") as fo:
            fo.write(stamp())
        with open(os.path.join(d, "verified.json"), "w") as fo:
            json.dump({"index_slots_checked": states, "wall_s": round(time.time() - t, 1)}, fo)
        log("tablebases solved and checked by TLC: %d index slots, %.0fs" % (states, time.time() - t))
        return files
