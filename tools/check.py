#!/usr/bin/env python3
"""check.py <property> [--tier quick|thorough] [--replay file]

Decides one property of /verif/properties.jsonl for /repo's current working tree.
exit 0: held on everything explored; exit 1 + "VIOLATION property=<id> replay=<path>": violated;
exit 2: the machinery itself failed (never a verdict)."""
import argparse
import json
import os
import sys

sys.path.insert(0, os.path.dirname(os.path.abspath(__file__)))
from wvlib import *  # noqa

CORPUS_FEN = os.path.join(CORPUS, "positions.fen")


def diag_key(d):
    w = d.get("what", {})
    parts = [d.get("prop", "?"), str(w.get("kind", ""))]
    for k in ("pos", "fen", "p", "board", "mv", "q", "persp", "ply", "text", "key"):
        if k in w:
            parts.append(str(w[k]))
    return "|".join(parts)


def diag_text(d):
    w = d.get("what", {})
    return "%s: %s" % (w.get("kind", "?"), json.dumps({k: v for k, v in w.items() if k != "kind"}, sort_keys=True))


def fold_diags(chk, results, pid, shard_paths=None):
    """Turns DIAG lines for property `pid` into violations; other properties' DIAGs are only counted."""
    others = {}
    for r in results:
        evs = None
        for d in r["diags"]:
            if d.get("prop") not in (pid, "PANIC"):
                others[d.get("prop")] = others.get(d.get("prop"), 0) + 1
                continue
            if len(chk.violations) > 300:
                # a change that breaks (nearly) everything: the rest is only counted, without context
                chk.violations.append(chk.violations[-1])
                continue
            case = {"trace_shard": r.get("trace"), "line": d.get("l"), "module": r["module"], "diag": d}
            try:
                if r.get("trace") and d.get("l"):
                    if evs is None:
                        evs = open(r["trace"]).read().splitlines()
                    l = int(d["l"])
                    ctx = []
                    # position context: nearest earlier event that logs a successor / reset
                    for k in range(l - 2, -1, -1):
                        e = json.loads(evs[k])
                        if e.get("ev") == "Move":
                            ctx = [{"ev": "Reset", "pos": e["next"]}]
                            break
                        if e.get("ev") == "Reset":
                            ctx = [e]
                            break
                    head = [json.loads(x) for x in evs[:3] if '"EvalConsts"' in x or '"Tb"' in x]
                    case["events"] = head + ctx + [json.loads(evs[l - 1])]
            except Exception as ex:  # replay context is best effort
                case["context_error"] = str(ex)
            chk.violation(diag_key(d), diag_text(d), case)
    if others:
        chk.notes.append("diagnostics for other properties in the same traces (reported by their own checks): %s" % others)


def play_traces(chk, wvbin, wd, emit, games, plies, extra=None, corpus=CORPUS_FEN):
    args = ["play", "--seed", chk.seed, "--games", games, "--plies", plies, "--emit", emit,
            "--corpus", corpus, "--out-prefix", os.path.join(wd, "play")]
    if extra:
        args += extra
    out = wv(wvbin, args)
    return json.loads(out.strip().splitlines()[-1])


def play_extreme(chk, wvbin, wd, emit, pid, quick):
    """The same random play and the same validation from positions of unusual material (corpus/extreme.fen) and with crowded
    slider lines (corpus/crowded.fen)."""
    lines = [l.strip() for f in ("extreme.fen", "crowded.fen") for l in open(os.path.join(CORPUS, f)) if l.strip() and not l.startswith("#")]
    xf = os.path.join(wd, "xcorpus.fen")
    with open(xf, "w") as f:
        f.write("\n".join(lines) + "\n")
    nx = len(lines)
    wv(wvbin, ["play", "--seed", chk.seed + 77, "--games", nx * (1 if quick else 6), "--plies", 6 if quick else 40, "--emit", emit, "--corpus", xf,
               "--out-prefix", os.path.join(wd, "xplay")])
    for kind in emit.split(","):
        path = os.path.join(wd, "xplay.%s.ndjson" % kind)
        if kind == "perform" or not os.path.exists(path):
            continue
        validate_stream(chk, path, pid, 4 if quick else NPROC, boundary="Reset" if kind == "move" else None, header="EvalConsts" if kind == "eval" else None)
    chk.coverage["extreme_material_positions"] = nx


def validate_stream(chk, path, pid, nshards, boundary=None, header=None, module="ChessTrace", deque=False):
    shards = shard(path, nshards, boundary=boundary, header=header)
    res = tlc_many([dict(module=module, trace=p, deque=deque) for p in shards])
    chk.add_tlc(res)
    fold_diags(chk, res, pid)
    chk.coverage["traces_validated_against_impl"] = chk.coverage.get("traces_validated_against_impl", 0) + len(shards)
    n = sum(r["accepted"] or 0 for r in res)
    chk.coverage["events_validated"] = chk.coverage.get("events_validated", 0) + n
    skips = sum(len(r["skips"]) for r in res)
    if skips:
        chk.coverage["events_outside_domain"] = chk.coverage.get("events_outside_domain", 0) + skips
    return res


def model_check(chk, module, cfg=None, workers=4, timeout=1500, env=None, expect_violation=False, informative=False):
    r = tlc(module, cfg=cfg, workers=workers, timeout=timeout, env=env, keep_stdout=True)
    bad = r["rc"] != 0 or r["error"]
    if informative:
        # a design-level observation recorded in the evidence; it neither raises nor suppresses anything
        chk.coverage.setdefault("model_runs", []).append(
            {"module": module, "cfg": cfg or module, "distinct_states": r["distinct"], "states_generated": r["states"], "wall_s": round(r["wall"], 1),
             "informative": True, "outcome": "counterexample" if bad else "holds"})
        return r
    if expect_violation:
        if not bad:
            tool_error("vacuity guard: %s/%s was expected to produce a counterexample" % (module, cfg))
    elif bad:
        sys.stderr.write(r.get("stdout", "")[-3000:])
        tool_error("model checking %s/%s failed: %s" % (module, cfg or module, r["error"]))
    chk.coverage.setdefault("model_runs", []).append(
        {"module": module, "cfg": cfg or module, "distinct_states": r["distinct"], "states_generated": r["states"],
         "wall_s": round(r["wall"], 1), "counterexample_expected": expect_violation})
    if not expect_violation:
        chk.coverage["states"] = chk.coverage.get("states", 0) + r["distinct"]
        chk.coverage["transitions"] = chk.coverage.get("transitions", 0) + r["states"]
    return r


def apalache_inductive(chk, module, cinit="ConstInit", guard_cinit=None, timeout=900):
    """Unbounded design-level safety: Apalache shows `IndInv` inductive (base case, step) and that it implies `Props`;
    with `guard_cinit` the step is expected to FAIL (vacuity guard). Symbolic, so no state counts."""
    import shutil
    exe = shutil.which("apalache-mc")
    if not exe:
        chk.notes.append("apalache-mc not found: the inductive-invariant runs for %s were skipped (TLC's bounded runs stand)" % module)
        return
    out = os.path.join(workdir(chk.pid, clean=False), "apalache")
    runs = [("base: Init => IndInv", ["--cinit=" + cinit, "--init=Init", "--inv=IndInv", "--length=0"], False),
            ("step: IndInv /\\ Next => IndInv'", ["--cinit=" + cinit, "--init=IndInit", "--inv=IndInv", "--length=1"], False),
            ("IndInv => Props", ["--cinit=" + cinit, "--init=IndInit", "--inv=Props", "--length=0"], False)]
    if guard_cinit:
        runs.append(("guard: step under %s" % guard_cinit, ["--cinit=" + guard_cinit, "--init=IndInit", "--inv=IndInv", "--length=1"], True))
    for name, args, expect_error in runs:
        t = time.time()
        try:
            r = subprocess.run([exe, "check", "--out-dir=" + out] + args + [os.path.join(SPEC, module + ".tla")], capture_output=True, text=True, timeout=timeout, cwd=out if os.path.isdir(out) else None)
        except subprocess.TimeoutExpired:
            chk.notes.append("apalache timed out on %s (%s); TLC's bounded runs stand" % (module, name))
            continue
        ok = "The outcome is: NoError" in r.stdout
        err = "The outcome is: Error" in r.stdout
        if not ok and not err:
            sys.stderr.write(r.stdout[-2000:])
            tool_error("apalache failed on %s (%s)" % (module, name))
        if expect_error and ok:
            tool_error("vacuity guard: apalache was expected to refute %s (%s)" % (module, name))
        if not expect_error and err:
            sys.stderr.write(r.stdout[-3000:])
            tool_error("apalache refuted %s (%s): the invariant is not inductive" % (module, name))
        chk.coverage.setdefault("model_runs", []).append({"module": module, "cfg": "apalache " + name, "distinct_states": 0, "states_generated": 0, "wall_s": round(time.time() - t, 1),
                                                          "counterexample_expected": expect_error, "engine": "apalache 0.58 (symbolic, unbounded in the number of commands)"})
    shutil.rmtree(out, ignore_errors=True)


def special_counts(path):
    """Measured non-triviality of a move trace: positions whose legal moves include a special move."""
    n = sp = 0
    kinds = {"castle": 0, "ep": 0, "promo": 0, "check": 0, "terminal": 0}
    seen = set()
    samples = []
    for l in open(path):
        e = json.loads(l)
        if e.get("ev") == "Terminal":
            kinds["terminal"] += 1
        if e.get("ev") != "Move":
            continue
        n += 1
        ms = e["moves"]
        c = any(m["castle"] != "." for m in ms)
        p = any(m["ep"] for m in ms)
        q = any(m["promo"] != "." for m in ms)
        kinds["castle"] += c
        kinds["ep"] += p
        kinds["promo"] += q
        kinds["check"] += bool(e["check"])
        if c or p or q or e["check"]:
            key = json.dumps(e["next"]["board"]) + e["next"]["stm"]
            if key not in seen:
                seen.add(key)
                sp += 1
                if len(samples) < 3:
                    samples.append({"mv": e["mv"], "n_legal": len(ms), "check": e["check"], "next": "".join(e["next"]["board"])})
    return n, sp, kinds, samples


# ------------------------------------------------------------------------------ C01 / C02 / C10

def check_rules(pid, tier, seed):
    chk = Check(pid, tier, seed, "model_checking")
    wd = workdir(pid)
    wvbin = build()
    quick = tier == "quick"
    # 1. the rules as a design: exhaustive exploration with the module's own invariants
    model_check(chk, "MCChess", cfg="MCChess" if quick else "MCChess3", workers=8)
    if pid == "C10":
        # the history clause at design level: queries, clones and derived objects in every order; stale-cache variant as guard
        model_check(chk, "AttackCache", cfg="AttackCache", workers=2)
        model_check(chk, "AttackCache", cfg="AttackCacheStale", workers=2, expect_violation=True)
    # 2. impl -> spec: random/corpus play validated step by step
    games, plies = (48, 70) if quick else (400, 120)
    emit = {"C01": "move", "C02": "move,perform", "C10": "move,attacks"}[pid]
    info = play_traces(chk, wvbin, wd, emit, games, plies, extra=["--perform-every", "40" if quick else "60"])
    res = validate_stream(chk, os.path.join(wd, "play.move.ndjson"), pid, NPROC if quick else NPROC * 4, boundary="Reset")
    if pid == "C10":
        validate_stream(chk, os.path.join(wd, "play.attacks.ndjson"), pid, NPROC if quick else NPROC * 2)
    play_extreme(chk, wvbin, wd, emit, pid, quick)
    n, sp, kinds, samples = special_counts(os.path.join(wd, "play.move.ndjson"))
    chk.coverage.update({"evaluations": info["visited"], "distinct_nontrivial": sp,
                         "rule": "positions visited by seeded random play from %s (move choice biased toward castling, en passant, promotion, rook captures); non-trivial = distinct positions whose legal moves include a castle, en-passant or promotion move or where the mover is in check" % os.path.basename(CORPUS_FEN),
                         "samples": samples, "special_positions": kinds})
    extra_rules(chk, pid, wvbin, wd, quick)
    chk.assumptions += ["Chess.tla is the rules oracle (self-checked against published perft numbers and book games)",
                        "projection through public accessors (harness/src/lib.rs)"]
    chk.finish()


FAMILY_SHARDS = {"KXK": 64, "EP": 28, "CASTLE": 10, "PROMO": 16, "PIN": 20, "KXXK": 128, "MINOR": 8}


def family_plan(pid, quick, seed):
    """(family, shard, stride) jobs; quick tiers sub-sample by VERIF_SEED, thorough tiers enumerate."""
    import random
    rnd = random.Random(seed * 7919 + 13)
    pick = lambda fam, n: rnd.sample(range(FAMILY_SHARDS[fam]), n)
    if quick:
        if pid == "C13":
            plan = [("KXK", s, 6) for s in pick("KXK", 6)] + [("KXXK", s, 900) for s in pick("KXXK", 4)] + [("PROMO", s, 8) for s in pick("PROMO", 2)] + [("CASTLE", s, 6) for s in pick("CASTLE", 2)] + [("MINOR", s, 4) for s in pick("MINOR", 1)]
        elif pid == "C05":
            plan = [("KXK", s, 3) for s in pick("KXK", 7)] + [("KXXK", s, 600) for s in pick("KXXK", 5)] + [("PROMO", s, 6) for s in pick("PROMO", 2)] + [("MINOR", s, 2) for s in pick("MINOR", 2)] + [("EP", s, 3) for s in pick("EP", 4)]
        elif pid == "C02":
            plan = [("CASTLE", s, 3) for s in pick("CASTLE", 5)] + [("EP", s, 4) for s in pick("EP", 4)] + [("PROMO", s, 5) for s in pick("PROMO", 3)] + [("KXK", s, 8) for s in pick("KXK", 2)]
        elif pid == "C10":
            plan = [("PIN", s, 80) for s in pick("PIN", 5)] + [("KXK", s, 8) for s in pick("KXK", 4)] + [("EP", s, 5) for s in pick("EP", 3)] + [("CASTLE", s, 4) for s in pick("CASTLE", 2)]
        else:
            plan = [("KXK", s, 8) for s in pick("KXK", 3)] + [("EP", s, 4) for s in pick("EP", 4)] + [("CASTLE", s, 3) for s in pick("CASTLE", 3)] \
                + [("PROMO", s, 5) for s in pick("PROMO", 2)] + [("PIN", s, 80) for s in pick("PIN", 2)]
    else:
        # thorough: complete enumeration of the cheap families, strided enumeration of the large ones (~25-35 min on 16 cores)
        if pid == "C13":
            plan = [("KXK", s, 2) for s in range(64)] + [("KXXK", s, 800) for s in range(128)] + [("PROMO", s, 4) for s in range(16)] + [("CASTLE", s, 3) for s in range(10)] + [("MINOR", s, 1) for s in range(8)]
        elif pid == "C05":
            plan = [("KXK", s, 1) for s in range(64)] + [("KXXK", s, 400) for s in range(128)] + [("PROMO", s, 2) for s in range(16)] + [("MINOR", s, 1) for s in range(8)] + [("EP", s, 1) for s in range(28)]
        elif pid == "C10":
            plan = [("PIN", s, 10) for s in range(20)] + [("KXK", s, 2) for s in range(64)] + [("EP", s, 2) for s in range(28)] + [("CASTLE", s, 2) for s in range(10)]
        elif pid == "C02":
            plan = [("KXK", s, 4) for s in range(64)] + [("EP", s, 1) for s in range(28)] + [("CASTLE", s, 1) for s in range(10)] + [("PROMO", s, 1) for s in range(16)]
        else:
            plan = [("KXK", s, 2) for s in range(64)] + [("EP", s, 1) for s in range(28)] + [("CASTLE", s, 1) for s in range(10)] \
                + [("PROMO", s, 1) for s in range(16)] + [("PIN", s, 12) for s in range(20)] + [("KXXK", s, 600) for s in range(128)]
    return [(f, s, st, (seed + 3 * s) % st) for f, s, st in plan]


def family_replay(chk, wvbin, wd, pid, plan):
    """spec -> impl: TLC enumerates the planned family shards, the replayer feeds them to the real code."""
    jobs = []
    for i, (fam, sh, stride, phase) in enumerate(plan):
        outp = os.path.join(wd, "fam_%s_%03d.out" % (fam, sh))
        jobs.append(dict(module="Families", env={"FAMILY": fam, "SHARD": sh, "STRIDE": stride, "PHASE": phase},
                         stdout_path=outp, xmx="5g", timeout=3000))
    res = tlc_many(jobs)
    for r in res:
        if r["rc"] != 0 or r["error"]:
            sys.stderr.write(r.get("stdout", "")[-2000:])
            tool_error("family enumeration failed: %s" % r["error"])
        if any(d.get("prop") == "ORACLE" for d in r["diags"]):
            tool_error("the rules specification failed its own consistency lemma: %s" % json.dumps(r["diags"][:2]))
        chk.coverage["states"] = chk.coverage.get("states", 0) + r["distinct"]
        chk.coverage["transitions"] = chk.coverage.get("transitions", 0) + r["states"]
    outs = [j["stdout_path"] for j in jobs]
    # replay in parallel chunks
    chunks = [outs[i::NPROC] for i in range(NPROC) if outs[i::NPROC]]
    from concurrent.futures import ThreadPoolExecutor
    def one(ic):
        i, c = ic
        mis = os.path.join(wd, "fam_mis_%02d.ndjson" % i)
        o = wv(wvbin, ["families", "--in", ",".join(c), "--out", mis])
        return json.loads(o.strip().splitlines()[-1]), mis
    with ThreadPoolExecutor(max_workers=NPROC) as ex:
        rs = list(ex.map(one, enumerate(chunks)))
    tot = {}
    samples = []
    for summ, mis in rs:
        for k, v in summ.items():
            if k == "samples":
                samples += v
            else:
                tot[k] = tot.get(k, 0) + v
        others = {}
        for l in open(mis):
            m = json.loads(l)
            if m["prop"] != pid:
                others[m["prop"]] = others.get(m["prop"], 0) + 1
                continue
            key = "|".join([m["prop"], m["kind"], m["fen"]] + [str(m[k]) for k in ("mv",) if k in m])
            chk.violation(key, "%s: %s" % (m["kind"], json.dumps({k: v for k, v in m.items() if k not in ("prop", "kind")}, sort_keys=True)),
                          {"family_case": m, "replay": "wv families on the GEN line of this fen"})
        if others:
            chk.notes.append("family replay mismatches for other properties (reported by their own checks): %s" % others)
    for r in res:
        if r.get("stdout_path"):
            pass
    for o in outs:
        try:
            os.remove(o)
        except OSError:
            pass
    chk.coverage["family_replay"] = dict(tot, shards=[list(p) for p in plan][:40], shard_count=len(plan))
    chk.coverage["family_samples"] = samples[:3]
    return tot


def perft_trees(chk, pid, wvbin, wd, quick):
    """The implementation's perft walk, node by node: children = Legal, counts add up, leaf counts = |Legal|."""
    from concurrent.futures import ThreadPoolExecutor
    nf = len([l for l in open(CORPUS_FEN) if l.strip() and not l.startswith("#")])
    jobs = [(i, os.path.join(wd, "perft_%02d.ndjson" % i)) for i in range(0, nf if not quick else min(nf, 14))]

    def gen(j):
        i, path = j
        o = wv(wvbin, ["perft", "--corpus", CORPUS_FEN, "--lo", i, "--hi", i + 1, "--depth", 3, "--out", path])
        return json.loads(o.strip().splitlines()[-1])
    with ThreadPoolExecutor(max_workers=NPROC) as ex:
        summ = list(ex.map(gen, jobs))
    res = tlc_many([dict(module="ChessTrace", trace=j[1], xmx="4g", timeout=3000) for j in jobs if os.path.getsize(j[1]) > 0])
    chk.add_tlc(res)
    fold_diags(chk, res, pid)
    chk.coverage["perft"] = {"root_positions": len(jobs), "depth": 3, "inner_nodes": sum(s["inner_nodes"] for s in summ), "leaves": sum(s["leaves"] for s in summ)}
    chk.coverage["traces_validated_against_impl"] = chk.coverage.get("traces_validated_against_impl", 0) + len(jobs)


def perft_cli(chk, pid, wd, quick):
    """The `weechess perft` command (depth 2) on the corpus: per-move lines and total against the specification."""
    import re
    import uci_driver
    cli = build_cli()
    fens = [l.strip() for l in open(CORPUS_FEN) if l.strip() and not l.startswith("#")]
    path = os.path.join(wd, "perftcli.ndjson")
    n = 0
    with open(path, "w") as f:
        for fen in fens[: (12 if quick else len(fens))]:
            r = run([cli, "perft", "--fen", fen, "--depth", "2"], timeout=120)
            lines = []
            total = -1
            for l in r.stdout.splitlines():
                m = re.match(r"^(\S+): (\d+) \[(.*)\]$", l.strip())
                if m:
                    lines.append({"peg": list(m.group(1)), "count": int(m.group(2)), "fen": list(m.group(3))})
                m = re.match(r"^Total nodes: (\d+)", l.strip())
                if m:
                    total = int(m.group(1))
            f.write(json.dumps({"ev": "PerftCli", "pos": uci_driver.fen_to_pos(fen), "depth": 2, "lines": lines, "total": total, "status": r.returncode}) + "\n")
            n += 1
    res = tlc_many([dict(module="ChessTrace", trace=p2, xmx="3g") for p2 in shard(path, NPROC)])
    chk.add_tlc(res)
    fold_diags(chk, res, pid)
    chk.coverage["perft_cli_positions"] = n


def extra_rules(chk, pid, wvbin, wd, quick):
    if pid == "C01":
        perft_trees(chk, pid, wvbin, wd, quick)
        perft_cli(chk, pid, wd, quick)
    tot = family_replay(chk, wvbin, wd, pid, family_plan(pid, quick, chk.seed))
    chk.coverage["evaluations"] = chk.coverage.get("evaluations", 0) + tot.get("positions", 0)
    chk.coverage["distinct_nontrivial"] = chk.coverage.get("distinct_nontrivial", 0) + tot.get("checks", 0)
    chk.coverage["rule"] += "; plus specification-enumerated families (3/4-man endgames, en passant with pins, castling through/into attack, promotions, pins): every enumerated position is distinct, counted non-trivial when the side to move is in check"


# ------------------------------------------------------------------------------ C05 / C13

def eval_samples(path, want_terminal):
    out = []
    n = nt = 0
    seen = set()
    for l in open(path):
        e = json.loads(l)
        if e.get("ev") != "Eval":
            continue
        n += 1
        key = "".join(e["pos"]["board"]) + e["pos"]["stm"]
        asym = e["pos"]["board"] != e["mirror"]["board"]
        if key not in seen and asym:
            seen.add(key)
            nt += 1
        if len(out) < 3 and n % 50 == 7:
            out.append({"board": "".join(e["pos"]["board"]), "stm": e["pos"]["stm"], "scores": e["scores"][:4]})
    return n, nt, out


def check_eval(pid, tier, seed):
    chk = Check(pid, tier, seed, "exploration")
    wd = workdir(pid)
    wvbin = build()
    quick = tier == "quick"
    games, plies = (40, 60) if quick else (800, 100)
    info = play_traces(chk, wvbin, wd, "eval", games, plies)
    validate_stream(chk, os.path.join(wd, "play.eval.ndjson"), pid, NPROC if quick else NPROC * 3, header="EvalConsts")
    n, nt, samples = eval_samples(os.path.join(wd, "play.eval.ndjson"), pid == "C05")
    play_extreme(chk, wvbin, wd, "eval", pid, quick)
    # checkmates and stalemates of many shapes (pawn checks, several attackers, stalemates with pawns next to the king ...): one
    # "game" of one ply per position, so each is evaluated (with its mirror image) exactly like a position met in play
    tfens = os.path.join(CORPUS, "terminals.fen")
    nterm = sum(1 for l in open(tfens) if l.strip() and not l.startswith("#"))
    wv(wvbin, ["play", "--seed", chk.seed, "--games", nterm, "--plies", 1, "--emit", "eval", "--corpus", tfens, "--out-prefix", os.path.join(wd, "term")])
    validate_stream(chk, os.path.join(wd, "term.eval.ndjson"), pid, NPROC, header="EvalConsts")
    n2, nt2, _ = eval_samples(os.path.join(wd, "term.eval.ndjson"), pid == "C05")
    n, nt = n + n2, nt + nt2
    chk.coverage.update({"evaluations": n, "distinct_nontrivial": nt, "samples": samples,
                         "rule": "positions visited by seeded random play, each evaluated from both perspectives at plies 0,1,2,9,10,11,64 together with its colour-mirrored twin (mirror verified against Chess!Mirror by TLC); non-trivial = distinct positions that differ from their own mirror image; plus the mined terminal positions of corpus/terminals.fen (80 shapes of checkmate and stalemate)"})
    if pid == "C13":
        tot = family_replay(chk, wvbin, wd, pid, family_plan(pid, quick, seed))
        chk.coverage["evaluations"] += tot.get("positions", 0)
        chk.coverage["distinct_nontrivial"] += tot.get("positions", 0)
        chk.coverage["rule"] += "; plus every position of the specification-enumerated endgame/castling/promotion families with the mirrored position supplied by Chess!Mirror (all terminal positions met included), both relations at plies 0, 3, 11"
    if pid == "C05":
        tot = family_replay(chk, wvbin, wd, pid, family_plan(pid, quick, seed))
        chk.coverage["evaluations"] += tot.get("positions", 0)
        chk.coverage["distinct_nontrivial"] += tot.get("mates", 0) + tot.get("stalemates", 0)
        chk.coverage["rule"] += "; plus every position of the specification-enumerated endgame families, status (mate/stalemate/open) decided by Chess.tla - non-trivial there = terminal positions"
    chk.assumptions += ["Chess.tla decides mate/stalemate/open and the mirror transformation", "the heuristic itself is not specified: only the terminal clauses and the symmetry relations are judged"]
    chk.finish()


# ------------------------------------------------------------------------------ C08 / C11 / C12

def textgen(chk, wd, mode, trace, stride, phases, tag):
    """Runs TextGen.tla in `mode`, one TLC process per phase; returns the GEN output files."""
    jobs = []
    for ph in phases:
        outp = os.path.join(wd, "tg_%s_%s_%03d.out" % (mode, tag, ph))
        jobs.append(dict(module="TextGen", trace=trace, env={"MODE": mode, "STRIDE": stride, "PHASE": ph}, stdout_path=outp, xmx="5g", timeout=3000))
    res = tlc_many(jobs)
    for r in res:
        if r["rc"] != 0 or r["error"]:
            sys.stderr.write(r.get("stdout", "")[-2000:])
            tool_error("TextGen %s failed: %s" % (mode, r["error"]))
        chk.coverage["states"] = chk.coverage.get("states", 0) + r["distinct"]
        chk.coverage["transitions"] = chk.coverage.get("transitions", 0) + r["states"]
    return [j["stdout_path"] for j in jobs]


def replay_text(chk, wvbin, wd, cmd, outs, pid, tag, key_fields, extra=None):
    from concurrent.futures import ThreadPoolExecutor

    def one(io):
        i, o = io
        mis = os.path.join(wd, "%s_%s_mis_%02d.ndjson" % (cmd, tag, i))
        out = wv(wvbin, [cmd, "--in", o, "--out", mis] + (extra or []))
        return json.loads(out.strip().splitlines()[-1]), mis
    with ThreadPoolExecutor(max_workers=NPROC) as ex:
        rs = list(ex.map(one, enumerate(outs)))
    tot = {}
    samples = []
    for summ, mis in rs:
        for k, v in summ.items():
            if k == "samples":
                samples += v
            elif isinstance(v, dict):
                d = tot.setdefault(k, {})
                for kk, vv in v.items():
                    d[kk] = d.get(kk, 0) + vv
            else:
                tot[k] = tot.get(k, 0) + v
        for l in open(mis):
            m = json.loads(l)
            if m["prop"] != pid:
                continue
            key = "|".join([m["prop"], m["kind"]] + [str(m[k]) for k in key_fields if k in m])
            chk.violation(key, "%s: %s" % (m["kind"], json.dumps({k: v for k, v in m.items() if k not in ("prop", "kind")}, sort_keys=True)), {"replay_case": m, "replayer": cmd})
    for o in outs:
        try:
            os.remove(o)
        except OSError:
            pass
    return tot, samples


def check_hash(pid, tier, seed):
    chk = Check(pid, tier, seed, "exploration")
    wd = workdir(pid)
    wvbin = build()
    quick = tier == "quick"
    games, plies = (30, 60) if quick else (400, 100)
    info = play_traces(chk, wvbin, wd, "move,hash", games, plies)
    # impl -> spec: every pair of met positions the two clauses could fail on, judged by TLC
    validate_stream(chk, os.path.join(wd, "play.hash.ndjson"), pid, NPROC if quick else NPROC * 2)
    pairs = read_events(os.path.join(wd, "play.hash.ndjson"))
    kinds = {}
    for e in pairs:
        kinds[e["why"]] = kinds.get(e["why"], 0) + 1
    # spec -> impl: single-component variants with the relation the hash must satisfy
    stride = NPROC if quick else NPROC
    outs = textgen(chk, wd, "hash", os.path.join(wd, "play.move.ndjson"), stride, range(stride), "v")
    tot, samples = replay_text(chk, wvbin, wd, "hashvar", outs, pid, "v", ("p", "q"), extra=["--seed", seed])
    # the same variants from bases that hold every right together with a legal en-passant capture on every file
    hb = os.path.join(CORPUS, "hashbases.fen")
    nhb = sum(1 for l in open(hb) if l.strip() and not l.startswith("#"))
    wv(wvbin, ["play", "--seed", chk.seed + 5, "--games", nhb, "--plies", 2, "--emit", "move", "--corpus", hb, "--out-prefix", os.path.join(wd, "hb")])
    outs2 = textgen(chk, wd, "hash", os.path.join(wd, "hb.move.ndjson"), 1, [0], "hb")
    tot2, _ = replay_text(chk, wvbin, wd, "hashvar", outs2, pid, "hb", ("p", "q"), extra=["--seed", seed])
    tot["pairs"] = tot.get("pairs", 0) + tot2.get("pairs", 0)
    for k, v in tot2.get("by_kind", {}).items():
        tot.setdefault("by_kind", {})[k] = tot.get("by_kind", {}).get(k, 0) + v
    # (c) inside a search: the key under which each node is entered (hook event) is a function of the position and vice versa,
    # however the node is reached - roots with castling rights and en-passant targets so that right-losing moves occur
    import random
    import searchchecks
    rnd = random.Random(seed * 131 + 8)
    roots = [f for f in searchchecks.corpus_fens() if f.split()[2] != "-" or f.split()[3] != "-"]
    roots += [l.split(" | ")[0] for l in open(os.path.join(CORPUS, "history_roots.txt")) if l.strip() and not l.startswith("#")][:(4 if quick else 24)]
    rnd.shuffle(roots)
    wbs = [{"id": 900000 + i, "steps": [{"fen": f, "depth": 3 if i % 2 else 2, "seed": rnd.randrange(1 << 30), "workers": 1 + i % 2, "tables": 2, "buckets": 256, "tag": "whitebox"}]}
           for i, f in enumerate(roots[:(8 if quick else 40)])]
    searchchecks.whitebox(chk, wvbin, wd, pid, wbs)
    chk.coverage.update({"evaluations": len(pairs) + tot.get("pairs", 0),
                         "distinct_nontrivial": kinds.get("same-identity", 0) + kinds.get("same-hash", 0) + sum(v for k, v in tot.get("by_kind", {}).items() if "(free)" not in k),
                         "rule": "pairs of positions: (a) among positions met in seeded random play and transposition probes, every pair with equal identity or equal hash plus all neighbours, judged by TLC against SameForHash/PosKey; (b) TLC-generated single-component variants (right removed/added, en-passant target set/cleared, side flipped, clocks changed, piece moved/replaced) with the required relation, under three hasher seeds; (c) white-box searches: key <-> position one-to-one over every node entered (SearchWB.tla); non-trivial = pairs on which a clause of C08 is actually binding (not 'free')",
                         "samples": samples[:3], "pair_kinds_from_play": kinds, "variant_kinds": tot.get("by_kind", {})})
    chk.assumptions += ["a 64-bit chance collision would be reported as a violation with the pair (probability < 1e-7 per run)"]
    chk.finish()


def check_fen(pid, tier, seed):
    chk = Check(pid, tier, seed, "exploration")
    wd = workdir(pid)
    wvbin = build()
    quick = tier == "quick"
    games, plies = (40, 70) if quick else (800, 120)
    info = play_traces(chk, wvbin, wd, "fen", games, plies)
    validate_stream(chk, os.path.join(wd, "play.fen.ndjson"), pid, NPROC if quick else NPROC * 2)
    play_extreme(chk, wvbin, wd, "fen", pid, quick)
    outs = textgen(chk, wd, "fen", None, NPROC, range(NPROC), "f")
    tot, samples = replay_text(chk, wvbin, wd, "fen", outs, pid, "f", ("text",))
    evs = read_events(os.path.join(wd, "play.fen.ndjson"))
    distinct = len({"".join(e["text"]) for e in evs})
    chk.coverage.update({"evaluations": len(evs) + tot.get("fens", 0), "distinct_nontrivial": distinct + tot.get("fens", 0),
                         "rule": "(a) every position of seeded random play written by the implementation, compared by TLC with ChessText!ToFen, read back, re-written, legal moves/hash/evaluation compared; (b) canonical FEN strings generated by TLC from 5 boards x all admissible castling-right sets x en-passant targets on both ranks x 9 counter pairs (beyond 2^32 and 2^63 as text), read and written back by the implementation; distinct = distinct FEN texts",
                         "samples": (samples + ["".join(evs[0]["text"])])[:3], "canonical_fens_generated": tot})
    chk.finish()


def check_san(pid, tier, seed):
    chk = Check(pid, tier, seed, "exploration")
    wd = workdir(pid)
    wvbin = build()
    quick = tier == "quick"
    games, plies = (30, 70) if quick else (400, 120)
    info = play_traces(chk, wvbin, wd, "move", games, plies)
    outs = textgen(chk, wd, "san", os.path.join(wd, "play.move.ndjson"), NPROC, range(NPROC), "p")
    tot, samples = replay_text(chk, wvbin, wd, "san", outs, pid, "p", ("fen", "text", "mv"))
    stride = NPROC * (40 if quick else 4)
    outs = textgen(chk, wd, "amb", None, stride, [(seed * 5 + i) % stride for i in range(NPROC)], "a")
    tot2, samples2 = replay_text(chk, wvbin, wd, "san", outs, pid, "a", ("fen", "text", "mv"))
    # the coordinate text where it is consumed: `position fen F moves <text>` for every legal move of selected positions, the
    # engine's resulting position read back and compared with Apply by UciTrace.tla ("that text selects the same move again")
    import ucichecks
    cli = build_cli()
    pool = ucichecks.Pool(wvbin, wd, seed)
    sessions = ucichecks.every_move_sessions(pool, wvbin, wd, seed, quick)
    traces = ucichecks.run_sessions(cli, wd, "lan", sessions)
    res = tlc_many([dict(module="UciTrace", trace=t, xmx="3g", timeout=3000) for t in traces])
    chk.add_tlc(res)
    nmoves = sum(len(c) - 1 for _, _, _, c in sessions)
    for r in res:
        for d in r["diags"]:
            w = d.get("what", {})
            if d.get("prop") == "TOOL":
                tool_error("driver/specification mismatch: %s" % json.dumps(d))
            if w.get("kind") == "engine's current position differs from the one the rules define":
                chk.violation("|".join([pid, "lan-through-uci", str(w.get("expected"))]),
                              "coordinate text of a legal move fed back through `position ... moves` selects another move (or none): %s" % json.dumps({a: b for a, b in w.items() if a != "kind"}, sort_keys=True),
                              {"module": "UciTrace", "trace": r["trace"], "diag": d})
    chk.coverage["lan_through_uci"] = {"sessions": len(sessions), "moves": nmoves}
    chk.coverage.update({"evaluations": tot.get("spellings", 0) + tot2.get("spellings", 0) + tot.get("negatives", 0) + tot2.get("negatives", 0) + nmoves,
                         "distinct_nontrivial": tot.get("moves_with_more_than_two_spellings", 0) + tot2.get("moves_with_more_than_two_spellings", 0),
                         "rule": "every admissible SAN spelling (all disambiguation levels, x, =Q/Q, +/#, O-O/O-O-O) of every legal move, generated by ChessText!SanSpellings for positions of seeded play and for the TLC-enumerated ambiguity family (three like pieces reaching one square), parsed by the implementation and matched against its legal moves; full-square spellings of pseudo-legal-but-illegal moves as negatives; LAN text compared with ChessText!Lan and resolved again, and fed through the UCI front end's `position ... moves` for every legal move of selected positions; non-trivial = moves with more than two admissible spellings",
                         "samples": (samples + samples2)[:3], "from_play": tot, "from_ambiguity_family": tot2})
    chk.finish()


# ------------------------------------------------------------------------------ C09 / C20

def check_magic(pid, tier, seed):
    chk = Check(pid, tier, seed, "exploration")
    wd = workdir(pid)
    wvbin = build()
    quick = tier == "quick"
    from concurrent.futures import ThreadPoolExecutor
    jobs = []
    nsh = 16
    modes = ["full"] if quick else ["full", "relevant"]
    for mode in modes:
        for i in range(nsh):
            jobs.append((mode, i * 4, i * 4 + 3, os.path.join(wd, "magic_%s_%02d.ndjson" % (mode, i))))

    def gen(j):
        mode, lo, hi, path = j
        o = wv(wvbin, ["magic", "--mode", mode, "--sq-lo", lo, "--sq-hi", hi, "--random", 150 if quick else 3000, "--seed", seed * 100 + lo, "--out", path])
        return json.loads(o.strip().splitlines()[-1])["occupancies"]
    with ThreadPoolExecutor(max_workers=NPROC) as ex:
        occs = list(ex.map(gen, jobs))
    res = tlc_many([dict(module="MagicTrace", trace=j[3], xmx="4g") for j in jobs])
    chk.add_tlc(res)
    fold_diags(chk, res, pid)
    for r in res:
        for d in r["diags"]:
            if d.get("prop") == "TOOL":
                tool_error("enumeration rejected by the specification: %s" % json.dumps(d))
    sample = read_events(jobs[0][3])[1]
    chk.coverage.update({"evaluations": sum(occs), "distinct_nontrivial": sum(occs), "exhaustive": True,
                         "rule": "for each of the 64 squares and rook/bishop: every subset of the squares on the piece's rays (edge squares included; %s), enumeration checked for completeness by MagicTrace (ray squares equal the specification's, blocks distinct, count = 2^(r-k)); plus random full-board occupancies for rook/bishop/queen through both entry points and the fixed knight/king/pawn sets for both colours; every occupancy is distinct" % ", ".join(modes),
                         "samples": [{"piece": sample["piece"], "sq": sample["sq"], "hi": sample["hi"], "first_answers": sample["res"][:3]}],
                         "traces_validated_against_impl": len(jobs)})
    chk.assumptions += ["Chess.tla ray geometry (Rays, jump tables)"]
    chk.finish()


def check_movevalue(pid, tier, seed):
    chk = Check(pid, tier, seed, "exploration")
    wd = workdir(pid)
    wvbin = build()
    path = os.path.join(wd, "mv.ndjson")
    info = json.loads(wv(wvbin, ["movevalue", "--out", path]).strip().splitlines()[-1])
    model_check(chk, "MoveValue", cfg="MoveValueAlg", workers=2)
    shards = shard(path, NPROC * 2)
    res = tlc_many([dict(module="MoveValue", trace=p, xmx="4g") for p in shards])
    chk.add_tlc(res)
    fold_diags(chk, res, pid)
    nev = sum(r["accepted"] or 0 for r in res)
    first = json.loads(open(path).readline())
    chk.coverage.update({"evaluations": info["moves"], "distinct_nontrivial": info["moves"], "exhaustive": True, "events_validated": nev,
                         "rule": "the whole constructor domain: 2 colours x 6 kinds x 64 origins x 64 destinations x {no capture, 5 kinds} x {no promotion, 4 kinds} through by_moving/by_capturing/by_promoting/by_capture_promoting, all 2x64x64 by_en_passant values and the 4 castling values; each value built twice (equality), compared in both directions with every value that differs from it in exactly one attribute (inequality), serialised through ciborium and read back; raw values pairwise distinct per event; every value is a distinct case",
                         "samples": [{"ctor": first["ctor"], "color": first["color"], "piece": first["piece"], "from": first["from"], "strs": first["strs"][:4]}],
                         "traces_validated_against_impl": len(shards)})
    chk.finish()


# ------------------------------------------------------------------------------ C15

def check_tt(pid, tier, seed):
    chk = Check(pid, tier, seed, "model_checking")
    wd = workdir(pid)
    wvbin = build()
    quick = tier == "quick"
    # 1. design: all interleavings of 2 threads x 3 ops on a small table; broken-lookup variant must fail
    model_check(chk, "TT", cfg="TT" if quick else "TTBig", workers=8, timeout=3000)
    model_check(chk, "TT", cfg="TTBroken", workers=4, expect_violation=True)
    # 2. spec -> impl: behaviours of the specification (TLC simulation) executed on the real table
    nsim = 6 if quick else 14
    jobs = []
    for i in range(nsim):
        outp = os.path.join(wd, "ttgen_%02d.out" % i)
        jobs.append(dict(module="TTGen", stdout_path=outp, extra=["-simulate", "num=%d" % (60 if quick else 400), "-depth", "600", "-seed", str(seed * 131 + i)], xmx="3g"))
    res = tlc_many(jobs)
    for r in res:
        if r["rc"] != 0 or r["error"]:
            sys.stderr.write(r.get("stdout", "")[-2000:])
            tool_error("TTGen failed: %s" % r["error"])
    traces = []
    summ = {"behaviours": 0, "ops": 0, "inserts": 0, "finds": 0}
    for i, j in enumerate(jobs):
        tr = os.path.join(wd, "tt_seq_%02d.ndjson" % i)
        o = json.loads(wv(wvbin, ["tt-seq", "--in", j["stdout_path"], "--out", tr]).strip().splitlines()[-1])
        for k in summ:
            summ[k] += o[k]
        traces.append(tr)
        os.remove(j["stdout_path"])
    # 3. impl -> spec: real threads hammering one table
    hsumm = {"runs": 0, "inserts": 0, "finds": 0}
    cfgs = [(1, 1), (2, 2), (3, 1), (2, 3)]
    k = 0
    for threads in ([2, 4, 8, 16, 32] if quick else [2, 3, 4, 8, 12, 16, 24, 32]):
        for pattern in ["aligned", "collide", "uniform", "highbits"]:
            for rep in range(1 if quick else 4):
                t, b = cfgs[k % len(cfgs)]
                k += 1
                tr = os.path.join(wd, "tt_h_%03d.ndjson" % k)
                o = json.loads(wv(wvbin, ["tt-hammer", "--threads", threads, "--ops", max(40, 1200 // threads), "--seed", seed * 977 + k, "--tables", t, "--buckets", b,
                                          "--pattern", pattern, "--out", tr]).strip().splitlines()[-1])
                hsumm["runs"] += 1
                hsumm["inserts"] += o["inserts"]
                hsumm["finds"] += o["finds"]
                traces.append(tr)
    # 3b. read-your-writes: every thread on keys of its own, free-running, in buckets that cannot fill
    osumm = {"runs": 0, "calls": 0}
    for threads in ([2, 8, 16, 32] if quick else [2, 4, 8, 12, 16, 24, 32]):
        for (t, b) in [(1, 64), (2, 32)]:
            for rep in range(2 if quick else 8):
                k += 1
                tr = os.path.join(wd, "tt_own_%03d.ndjson" % k)
                o = json.loads(wv(wvbin, ["tt-own", "--threads", threads, "--ops", 400, "--seed", seed * 31 + k, "--tables", t, "--buckets", b, "--out", tr]).strip().splitlines()[-1])
                osumm["runs"] += 1
                osumm["calls"] += o["calls"]
                traces.append(tr)
    res = tlc_many([dict(module="TTTrace", trace=t, xmx="4g", timeout=2400) for t in traces])
    chk.add_tlc(res)
    fold_diags(chk, res, pid)
    for r in res:
        for d in r["diags"]:
            if d.get("prop") == "TOOL":
                tool_error("recorded linearisation rejected: %s" % json.dumps(d))
    sample = read_events(traces[0])[:4]
    chk.coverage.update({"traces_validated_against_impl": len(traces), "events_validated": sum(r["accepted"] or 0 for r in res),
                         "samples": sample, "spec_behaviours_replayed": summ, "concurrent_runs": hsumm, "read_your_writes_runs": osumm,
                         "evaluations": summ["ops"] + hsumm["inserts"] + hsumm["finds"], "distinct_nontrivial": summ["behaviours"] + hsumm["runs"],
                         "rule": "TLC-simulated behaviours of TT.tla (3 threads x 60 ops over 15 keys of which 11 share one bucket of 8 slots) executed single- and multi-threaded on the real table; real threads (2..32) hammering tables of 1..3 sub-tables x 1..3 buckets with aligned/colliding/uniform keys; events linearised by the in-lock version counter and validated by TTTrace's subset construction"})
    chk.assumptions += ["events are emitted inside insert/find while the sub-table lock is held (hook), so (table, version) is the linearisation order"]
    chk.finish()


CHECKS = {"C15": check_tt, "C09": check_magic, "C20": check_movevalue, "C08": check_hash, "C11": check_fen, "C12": check_san, "C01": check_rules, "C02": check_rules, "C10": check_rules, "C05": check_eval, "C13": check_eval}


def _search(fn):
    def run(pid, tier, seed):
        import searchchecks
        getattr(searchchecks, fn)(pid, tier, seed)
    return run


CHECKS.update({"C03": _search("check_c03"), "C04": _search("check_c04"), "C06": _search("check_c06"), "C17": _search("check_c17"), "C19": _search("check_c19")})


def _uci(fn):
    def run(pid, tier, seed):
        import ucichecks
        getattr(ucichecks, fn)(pid, tier, seed)
    return run


CHECKS.update({"C07": _uci("check_uci"), "C18": _uci("check_uci"), "C14": _uci("check_c14")})


def _book(pid, tier, seed):
    import bookcheck
    bookcheck.check_book(pid, tier, seed)


CHECKS["C16"] = _book


def main():
    ap = argparse.ArgumentParser()
    ap.add_argument("pid")
    ap.add_argument("--tier", default=os.environ.get("VERIF_TIER", "quick"))
    ap.add_argument("--replay")
    a = ap.parse_args()
    seed = int(os.environ.get("VERIF_SEED", "1"))
    os.environ["WV_TIER"] = a.tier
    if a.replay:
        return replay(a.pid, a.replay)
    if a.pid not in CHECKS:
        tool_error("no check for " + a.pid)
    try:
        CHECKS[a.pid](a.pid, a.tier, seed)
    except SystemExit:
        raise
    except Exception:
        import traceback
        traceback.print_exc()
        tool_error("internal error of the checking machinery (traceback above)")


def replay(pid, path):
    """Re-judges the stored failing case with the same trace module."""
    case = json.load(open(path))["case"]
    wd = workdir(pid + "-replay")
    if "events" in case:
        p = os.path.join(wd, "replay.ndjson")
        with open(p, "w") as f:
            for e in case["events"]:
                f.write(json.dumps(e) + "\n")
        r = tlc(case.get("module", "ChessTrace"), trace=p, keep_stdout=True)
        ds = [d for d in r["diags"] if d.get("prop") == pid]
        for d in ds:
            print("VIOLATION property=%s replay=%s  # %s" % (pid, path, diag_text(d)[:300]))
        sys.exit(1 if ds else 0)
    print(json.dumps(case)[:2000])
    sys.exit(1)


if __name__ == "__main__":
    main()
