"""Checks that drive the real searcher: C03 C04 C06 C17 C19 (black-box traces judged by
SearchTrace.tla, design-level model checking of Search.tla)."""
import json
import os
import random
import subprocess
import sys
import time
from concurrent.futures import ThreadPoolExecutor

from wvlib import *  # noqa


# ------------------------------------------------------------------ helpers

def pos_to_fen(p):
    rows = []
    b = p["board"]
    for r in range(7, -1, -1):
        run, s = 0, ""
        for f in range(8):
            c = b[r * 8 + f]
            if c == ".":
                run += 1
            else:
                if run:
                    s += str(run)
                    run = 0
                s += c
        if run:
            s += str(run)
        rows.append(s)
    castle = "".join(c for c in "KQkq" if c in p["castle"]) or "-"
    ep = "-" if p["ep"] == 0 else "abcdefgh"[(p["ep"] - 1) % 8] + str((p["ep"] - 1) // 8 + 1)
    return "%s %s %s %s %d %d" % ("/".join(rows), p["stm"], castle, ep, p["half"], p["full"])


def forced_roots():
    """The section of corpus/mates.fen with a single legal root move (a forced mate behind it)."""
    out, on = [], False
    for l in open(os.path.join(CORPUS, "mates.fen")):
        l = l.strip()
        if l.startswith("# forced mates behind a single legal move"):
            on = True
        elif l.startswith("# no forced mate"):
            on = False
        elif on and l and not l.startswith("#"):
            out.append(l)
    return out


def corpus_fens():
    return [l.strip() for l in open(os.path.join(CORPUS, "positions.fen")) if l.strip() and not l.startswith("#")]


def play_fens(wvbin, wd, seed, games, plies, every=3):
    """Positions met by seeded random play (as FEN text written by this script from the projection)."""
    wv(wvbin, ["play", "--seed", seed, "--games", games, "--plies", plies, "--emit", "move", "--corpus",
               os.path.join(CORPUS, "positions.fen"), "--out-prefix", os.path.join(wd, "pf")])
    out = []
    prev = None
    for i, l in enumerate(open(os.path.join(wd, "pf.move.ndjson"))):
        e = json.loads(l)
        if e.get("ev") == "Reset":
            prev = e["pos"]
        if e.get("ev") == "Move":
            # roots with a special shape are always kept: the side to move is in check, has at most two legal moves, or can
            # castle / capture en passant / promote right now
            ms = e["moves"]
            special = e["check"] or len(ms) <= 2 or any(m["castle"] != "." or m["ep"] or m["promo"] != "." for m in ms)
            if prev is not None and special and (i % 2 == 0):
                out.append(pos_to_fen(prev))
            if i % every == 0:
                out.append(pos_to_fen(e["next"]))
            prev = e["next"]
    return out


_TB = {}


def tb_load(files):
    for k, f in files.items():
        if k not in _TB:
            _TB[k] = json.load(open(f))["tb"]
    return _TB


def sqn(s):
    return "abcdefgh"[s % 8] + str(s // 8 + 1)


def mirror_fen(fen):
    """The colour-mirrored position (ranks flipped, colours and side to move swapped, castling letters and en-passant rank with them)."""
    f = fen.split()
    rows = [r.swapcase() for r in reversed(f[0].split("/"))]
    castle = "".join(c for c in "KQkq" if c in f[2].swapcase()) or "-"
    ep = "-" if f[3] == "-" else f[3][0] + str(9 - int(f[3][1]))
    return " ".join(["/".join(rows), "b" if f[1] == "w" else "w", castle, ep] + f[4:])


def tb_fen(piece, idx, mirror=False):
    """FEN of table slot idx (White attacking); mirror=True gives the colour-mirrored position."""
    stm, rest = divmod(idx, 262144)
    wk, rest = divmod(rest, 4096)
    bk, x = divmod(rest, 64)
    board = ["."] * 64
    board[wk], board[bk], board[x] = "K", "k", piece
    # the counters are part of the position but of no rule the search may use: vary them with the slot
    half = (0, 0, 1, 3, 12, 57, 97, 98, 99)[idx % 9]      # (a quiet mate from clock 99 is still a mate: the claim of a draw is not automatic)
    p = {"board": board, "stm": "wb"[stm], "castle": [], "ep": 0, "half": half, "full": half // 2 + 1 + idx % 3}
    if mirror:
        nb = ["."] * 64
        for s in range(64):
            c = board[(7 - s // 8) * 8 + s % 8]
            nb[s] = c.swapcase() if c != "." else c
        p = dict(p, board=nb, stm="bw"[stm])
    return pos_to_fen(p)


def tb_successors(piece, tb, idx):
    """(move-less) successor slots of a White-to-move slot with their codes - only used to *select* inputs;
    the verdicts come from TLC."""
    raise NotImplementedError


def run_scripts(wvbin, wd, name, sessions, nproc=None, per_session_timeout=25, cmd="search"):
    """Runs sessions on parallel harness processes; a harness that stops making progress is killed and the
    dangling search gets a SearchEnd{status: timeout} (data, judged by TLC). Returns the trace files."""
    nproc = nproc or NPROC
    chunks = [sessions[i::nproc] for i in range(nproc) if sessions[i::nproc]]

    def one(ic):
        i, chunk = ic
        script = os.path.join(wd, "%s_%02d.jsonl" % (name, i))
        with open(script, "w") as f:
            for s in chunk:
                f.write(json.dumps(s) + "\n")
        traces = []
        skip = 0
        part = 0
        while skip < len(chunk):
            tr = os.path.join(wd, "%s_%02d_%d.ndjson" % (name, i, part))
            part += 1
            traces.append(tr)
            try:
                r = subprocess.run([wvbin, cmd, "--script", script, "--out", tr, "--skip", str(skip)], capture_output=True, text=True,
                                   timeout=max(60, per_session_timeout * (len(chunk) - skip)))
                if r.returncode == 7:
                    raise subprocess.TimeoutExpired(cmd, 0)
                if r.returncode != 0:
                    sys.stderr.write(r.stderr[-2000:])
                    tool_error("search harness failed (status %s)" % r.returncode)
                break
            except subprocess.TimeoutExpired:
                # find the dangling search and the session it belongs to
                lines = open(tr).read().splitlines() if os.path.exists(tr) else []
                started = [json.loads(x) for x in lines if '"ev":"SearchStart"' in x]
                ended = sum(1 for x in lines if '"ev":"SearchEnd"' in x)
                with open(tr, "a") as f:
                    if len(started) > ended:
                        f.write(json.dumps({"ev": "SearchEnd", "status": "timeout", "ms": 10 ** 8, "ms_after_cancel": -1, "nodes": 0, "nodes_after_cancel": 0, "history_len": 0, "entries": 0,
                                            "sched": {"grants": 0, "switches": 0, "degraded": False}}) + "\n")
                sid = started[-1]["sid"] if started else None
                pos = [k for k, s in enumerate(chunk) if s["id"] == sid]
                skip = (pos[0] + 1) if pos else len(chunk)
        return traces
    with ThreadPoolExecutor(max_workers=nproc) as ex:
        res = list(ex.map(one, enumerate(chunks)))
    return [t for ts in res for t in ts if os.path.exists(t) and os.path.getsize(t) > 0]


def validate_search_traces(chk, traces, pid, files=None, hang_ms=20000):
    env = {"HANG_MS": hang_ms}
    if files:
        env.update({"TBR": files["R"], "TBQ": files["Q"]})
    res = tlc_many([dict(module="SearchTrace", trace=t, env=env, xmx="4g", timeout=3000) for t in traces])
    chk.add_tlc(res)
    # fold with search-specific keys
    others = {}
    for r in res:
        evs = None
        for d in r["diags"]:
            if d.get("prop") != pid:
                others[d.get("prop")] = others.get(d.get("prop"), 0) + 1
                continue
            w = d.get("what", {})
            key = "|".join([pid, str(w.get("kind")), str(w.get("pos", w.get("fen", ""))), str(w.get("tag", ""))])
            case = {"trace": r["trace"], "line": d.get("l"), "diag": d, "module": "SearchTrace", "env": env}
            try:
                if evs is None:
                    evs = open(r["trace"]).read().splitlines()
                l = int(d["l"])
                k = l - 1
                while k >= 0 and '"ev":"SearchStart"' not in evs[k]:
                    k -= 1
                j = l - 1
                while j < len(evs) - 1 and '"ev":"SearchEnd"' not in evs[j]:
                    j += 1
                case["events"] = [json.loads(x) for x in evs[max(k, 0):j + 1] if '"ev":"Enter"' not in x and '"ev":"Find"' not in x][:60]
            except Exception as ex:
                case["context_error"] = str(ex)
            chk.violation(key, "%s: %s" % (w.get("kind"), json.dumps({a: b for a, b in w.items() if a != "kind"}, sort_keys=True)), case)
    if others:
        chk.notes.append("diagnostics for other properties in the same traces (reported by their own checks): %s" % others)
    chk.coverage["traces_validated_against_impl"] = chk.coverage.get("traces_validated_against_impl", 0) + len(traces)
    chk.coverage["events_validated"] = chk.coverage.get("events_validated", 0) + sum(r["accepted"] or 0 for r in res)
    return res


def trace_stats(traces):
    st = {"searches": 0, "reports": 0, "mate_reports": 0, "multi_worker": 0, "interleaved": 0, "with_history": 0, "reused_memory": 0, "cancelled": 0, "terminal_roots": 0,
          "timeouts": 0, "panics": 0}
    samples = []
    cur = None
    for t in traces:
        for l in open(t):
            if '"ev":"SearchStart"' in l:
                cur = json.loads(l)
                st["searches"] += 1
                st["multi_worker"] += cur["workers"] > 1
                st["with_history"] += len(cur["history"]) > 0
                st["reused_memory"] += not cur["fresh"]
                st["cancelled"] += cur["cancel_at"] >= 0 or cur.get("stop_after_ms", -1) >= 0
                cur["_reports"] = 0
            elif '"ev":"Report"' in l:
                e = json.loads(l)
                st["reports"] += 1
                st["mate_reports"] += bool(e["terminal"] and e["eval"] > 0)
                if cur is not None:
                    cur["_reports"] += 1
                    cur["_last"] = e
            elif '"ev":"SearchEnd"' in l:
                e = json.loads(l)
                st["interleaved"] += e["sched"]["switches"] > 0
                st["timeouts"] += e["status"] == "timeout"
                st["panics"] += e["status"] == "panic"
                if cur is not None:
                    st["terminal_roots"] += cur["_reports"] == 0
                    if len(samples) < 3 and st["searches"] % 37 == 1:
                        last = cur.get("_last", {})
                        samples.append({"fen": cur["fen"], "depth": cur["depth"], "seed": cur["seed"], "workers": cur["workers"], "fresh": cur["fresh"],
                                        "history": len(cur["history"]), "cancel_at": cur["cancel_at"], "reports": cur["_reports"], "last_eval": last.get("eval"),
                                        "first_move": (last.get("line") or [{}])[0], "status": e["status"], "nodes": e["nodes"], "sched_switches": e["sched"]["switches"]})
    return st, samples


# ------------------------------------------------------------------ white-box traces (SearchWB.tla)

def whitebox(chk, wvbin, wd, pid, sessions, name="wb"):
    """Runs the sessions with white-box logging, splits every search's hook events into one stream per
    worker and iteration and validates each against SearchWB.tla. Property diagnostics for `pid` become
    violations; model-conformance diagnostics (DRIFT) only weaken the model-checking claim."""
    for s in sessions:
        for st in s["steps"]:
            st["wb"] = True
            # every 7th capture search below the horizon is logged node by node (at most 600 events per worker and iteration)
            st.setdefault("qs_every", 7)
            st.setdefault("qs_budget", 600)
    traces = run_scripts(wvbin, wd, name, sessions, nproc=min(NPROC, max(1, len(sessions))))
    streams = []
    k = 0
    for t in traces:
        head = None
        per = {}
        for line in open(t):
            e = json.loads(line)
            ev = e.get("ev")
            if ev == "SearchStart" and "root" in e:
                head = {"ev": "WbStart", "root": e["root"], "history_keys": e["history_keys"], "mate": e.get("mate", [0]), "fen": e["fen"]}
                per = {}
            elif ev == "SearchEnd":
                for w, evs in sorted(per.items()):
                    k += 1
                    sp = os.path.join(wd, "%s_stream_%04d.ndjson" % (name, k))
                    with open(sp, "w") as f:
                        f.write(json.dumps(head) + "\n")
                        for x in evs:
                            f.write(json.dumps(x) + "\n")
                    streams.append(sp)
                per = {}
            elif "w" in e and e["w"] >= 0 and head is not None:
                if ev in ("Find", "Insert"):
                    e = dict(e, key=e["key"])
                per.setdefault(e["w"], []).append(e)
    # pack streams into shard files (each stream starts with its own WbStart header)
    shards = []
    nsh = min(NPROC, max(1, len(streams)))
    for i in range(nsh):
        sp = os.path.join(wd, "%s_shard_%02d.ndjson" % (name, i))
        with open(sp, "w") as f:
            for st in streams[i::nsh]:
                f.write(open(st).read())
        shards.append(sp)
    for st in streams:
        os.remove(st)
    res = tlc_many([dict(module="SearchWB", trace=sp, xmx="4g", timeout=600) for sp in shards])
    incomplete = [r for r in res if r["rc"] != 0 or r["error"] or r["stuck"] is not None]
    if incomplete:
        chk.notes.append("white-box validation incomplete on %d of %d shards (time limit or validator error); black-box verdicts unaffected" % (len(incomplete), len(res)))
    res = [r for r in res if r not in incomplete]
    chk.add_tlc(res)
    drift = {}
    nev = 0
    for r in res:
        nev += r["accepted"] or 0
        for d in r["diags"]:
            w = d.get("what", {})
            if d.get("prop") == "DRIFT":
                drift[w.get("kind")] = drift.get(w.get("kind"), 0) + 1
            elif d.get("prop") == pid:
                chk.violation("|".join([pid, "whitebox", str(w.get("kind")), str(w.get("pos", ""))]), "white-box: %s: %s" % (w.get("kind"), json.dumps({a: b for a, b in w.items() if a != "kind"}, sort_keys=True)),
                              {"module": "SearchWB", "trace": r["trace"], "diag": d})
    chk.coverage["whitebox"] = {"worker_streams": len(streams), "events_validated": nev, "model_drift": drift}
    chk.coverage["traces_validated_against_impl"] = chk.coverage.get("traces_validated_against_impl", 0) + len(streams)
    if drift:
        print("MODEL-DRIFT property=%s the algorithmic model (Search.tla/SearchWB.tla) no longer describes the code: %s" % (pid, json.dumps(drift)))
    return traces


# ------------------------------------------------------------------ model checking (Search.tla)

def search_models(chk, pid, quick):
    """Design-level: the algorithmic model of the searcher on small abstract games."""
    from check import model_check
    plan = {
        "C03": [("MCSearch", "MCSearch_legal", False), ("MCSearch", "MCSearch_collide", True), ("MCSearch", "MCSearch_tiny_legal", False), ("MCSearch", "MCSearch_tiny_notag", True)]
               + ([] if quick else [("MCSearch", "MCSearch_legal_t", False)]),
        "C04": [("MCSearch", "MCSearchCtl", False), ("MCSearch", "MCSearchCtl_pinned", True), ("MCSearch", "MCSearchCtl2", False),
                ("MCSearch", "MCSearch_mated", False), ("MCSearch", "MCSearch_mated_pinned", True)],
        "C06": [("MCSearch", "MCSearch_mate", False), ("MCSearch", "MCSearch_qs", False), ("MCSearch", "MCSearch_rich", False), ("MCSearch", "MCSearch_richtiny", False),
                ("MCSearch", "MCSearch_tiny", None)],
        "C17": [("MCSearch", "MCSearch_history", False), ("MCSearch", "MCSearch_history_t", False)],
        "C19": [("MCSearch", "MCSearch_det", False)],
    }[pid]
    for mod, cfg, expect in plan:
        if os.path.exists(os.path.join(SPEC, cfg + ".cfg")):
            if expect is None:
                model_check(chk, mod, cfg=cfg, workers=6, informative=True, timeout=2400)
            else:
                model_check(chk, mod, cfg=cfg, workers=6, expect_violation=expect, timeout=2400)
        else:
            chk.notes.append("model configuration %s not present in this revision" % cfg)


# ------------------------------------------------------------------ tablebase-based input selection

def _king(s):
    f, r = s % 8, s // 8
    return [(r + dr) * 8 + f + df for df in (-1, 0, 1) for dr in (-1, 0, 1) if (df or dr) and 0 <= f + df < 8 and 0 <= r + dr < 8]


def _rays(piece, s):
    f, r = s % 8, s // 8
    dirs = [(1, 0), (-1, 0), (0, 1), (0, -1)] + ([(1, 1), (1, -1), (-1, 1), (-1, -1)] if piece == "Q" else [])
    out = []
    for df, dr in dirs:
        ray = []
        ff, rr = f + df, r + dr
        while 0 <= ff < 8 and 0 <= rr < 8:
            ray.append(rr * 8 + ff)
            ff += df
            rr += dr
        out.append(ray)
    return out


def white_successors(piece, idx):
    """Successor slots (Black to move) of a White-to-move slot. Selection aid only."""
    stm, rest = divmod(idx, 262144)
    wk, rest = divmod(rest, 4096)
    bk, x = divmod(rest, 64)
    assert stm == 0
    out = []
    for t in _king(wk):
        if t == x or t == bk or t in _king(bk):
            continue
        out.append(262144 + t * 4096 + bk * 64 + x)
    for ray in _rays(piece, x):
        for q in ray:
            if q in (wk, bk):
                break
            out.append(262144 + wk * 4096 + bk * 64 + q)
    return out


def black_successors(piece, idx):
    """Successor slots (White to move) of a Black-to-move slot; -1 for the capture of the piece. Selection aid only."""
    stm, rest = divmod(idx, 262144)
    wk, rest = divmod(rest, 4096)
    bk, x = divmod(rest, 64)
    assert stm == 1
    att = set()
    for ray in _rays(piece, x):
        for q in ray:
            att.add(q)
            if q == wk:
                break
    out = []
    for t in _king(bk):
        if t == wk or t in _king(wk):
            continue
        if t == x:
            out.append(-1)
            continue
        if t in att:
            continue
        out.append(wk * 4096 + t * 64 + x)
    return out


def sample_slots(tb, pred, n, rnd, stm=0):
    lo, hi = (0, 262144) if stm == 0 else (262144, 524288)
    out = []
    tries = 0
    while len(out) < n and tries < n * 4000:
        i = rnd.randrange(lo, hi)
        tries += 1
        if pred(tb[i]):
            out.append(i)
    return out


# ------------------------------------------------------------------ C03

def check_c03(pid, tier, seed):
    from check import textgen
    chk = Check(pid, tier, seed, "model_checking")
    wd = workdir(pid)
    wvbin = build()
    quick = tier == "quick"
    rnd = random.Random(seed * 31 + 3)
    search_models(chk, pid, quick)
    fens = corpus_fens() + play_fens(wvbin, wd, seed, 12 if quick else 120, 50)
    rnd.shuffle(fens)
    sessions = []
    sid = 0
    nsingle = 500 if quick else 12000
    for i in range(nsingle):
        f = fens[i % len(fens)]
        w = rnd.choice([1, 1, 2, 3, 4, 8, 32]) if i % 5 else 1
        st = {"fen": f, "depth": rnd.choice([1, 2, 2, 3, 3, 4 if w == 1 else 3]), "seed": rnd.randrange(1 << 30) if i % 9 else rnd.choice([0, 1, (1 << 63), (1 << 64) - 1]), "workers": w,
              "tables": rnd.choice([1, 2, 8]), "buckets": rnd.choice([1, 16, 1024]), "tag": "single"}
        if w > 1 and i % 2 == 0:
            st["sched"] = [rnd.randrange(1 << 30), rnd.choice([0.0, 0.5, 0.9])]
        sid += 1
        sessions.append({"id": sid, "steps": [st]})
    # the counters are part of the position: the same placements late in a long game (a draw can be claimed at 100
    # half-moves, but the game is not over and the search still owes a move)
    for i in range(40 if quick else 600):
        f = fens[(i * 11) % len(fens)].split()
        f[4] = str(rnd.choice([99, 100, 100, 101, 120, 149, 150, 200, 1000]))
        f[5] = str(max(int(f[5]), int(f[4]) // 2 + 1))
        sid += 1
        sessions.append({"id": sid, "steps": [{"fen": " ".join(f), "depth": rnd.choice([1, 2, 3]), "seed": rnd.randrange(1 << 30), "workers": rnd.choice([1, 1, 2]), "tables": 8, "buckets": 1024, "tag": "high-clock"}]})
    # roots where the side to move is lost whatever it plays (every move is answered by mate in one, for some only by a capture),
    # their colour mirrors, and roots with a single legal move: a report is owed all the same
    special = [l.strip() for l in open(os.path.join(CORPUS, "doomed.fen")) if l.strip() and not l.startswith("#")]
    special += [mirror_fen(f) for f in special]
    special += forced_roots()
    for i, f in enumerate(special if not quick else special[seed % 2::2]):
        for d in ((1, 3) if quick else (1, 2, 3, 4)):
            sid += 1
            sessions.append({"id": sid, "steps": [{"fen": f, "depth": d, "seed": rnd.randrange(1 << 30), "workers": 1 + (i + d) % 2, "tables": 8, "buckets": 1024, "tag": "lost-or-forced-root"}]})
    # histories: earlier searches on the same memory - variants of the root that differ only in castling rights /
    # en-passant state (generated by the specification), neighbours in the game, unrelated positions
    outs = textgen(chk, wd, "hash", os.path.join(wd, "pf.move.ndjson"), NPROC * (4 if quick else 1), range(NPROC), "h")
    pairs = []
    for o in outs:
        for l in open(o):
            if l.startswith('<<"GEN"'):
                g = json.loads(l[len('<<"GEN", "'):-len('">>') - 1].replace('\\"', '"').replace("\\\\", "\\"))
                if g["why"] in ("castling right removed", "castling right added", "en-passant target cleared", "en-passant target set", "side to move flipped"):
                    pairs.append((g["p"], g["q"], g["why"]))
        os.remove(o)
    rnd.shuffle(pairs)
    # the defect's own input first
    pairs = [("4k3/p6p/Pp4pP/1Pp2pP1/2Pp1P2/3P4/8/4K2R w - - 0 1", "4k3/p6p/Pp4pP/1Pp2pP1/2Pp1P2/3P4/8/4K2R w K - 0 1", "castling right added")] + pairs
    nhist = 350 if quick else 6000
    for i, (p, q, why) in enumerate(pairs[:nhist]):
        for first, second in ((q, p), (p, q)):
            sid += 1
            w = rnd.choice([1, 1, 2, 4])
            steps = [{"fen": first, "depth": rnd.choice([2, 3]), "seed": rnd.randrange(1 << 30), "workers": 1, "tables": rnd.choice([1, 8]), "buckets": 1024, "tag": "hist:" + why}]
            if i % 3 == 0:
                steps.append({"fen": rnd.choice(fens), "depth": 2, "seed": rnd.randrange(1 << 30), "workers": 1, "reuse": True, "tag": "hist:unrelated"})
            steps.append({"fen": second, "depth": rnd.choice([1, 2, 2, 3]), "seed": rnd.randrange(1 << 30), "workers": w, "reuse": True, "tag": "hist:" + why})
            sessions.append({"id": sid, "steps": steps})
    # the same position searched again on the kept memory (analysis mode: go, stop, go), with equal, smaller and larger depth limits
    for i in range(24 if quick else 300):
        f = fens[(i * 19 + 5) % len(fens)]
        d = rnd.choice([2, 3, 3, 4])
        sid += 1
        sessions.append({"id": sid, "steps": [{"fen": f, "depth": d, "seed": rnd.randrange(1 << 30), "workers": 1, "tables": 8, "buckets": 1024, "tag": "same-root-again"}] +
                                             [{"fen": f, "depth": d2, "seed": rnd.randrange(1 << 30), "workers": 1 + (k % 2), "reuse": True, "tables": 8, "buckets": 1024, "tag": "same-root-again"}
                                              for k, d2 in enumerate([d, max(1, d - 1), 1, d + 1])]})
    # as in a real game: the memory is kept while the game moves on two plies at a time (the new root was an inner node of the
    # previous search), a few games of six searches each
    wv(wvbin, ["play", "--seed", seed + 23, "--games", 100 if quick else 1200, "--plies", 14, "--emit", "move", "--corpus", os.path.join(CORPUS, "positions.fen"), "--out-prefix", os.path.join(wd, "gl")])
    game = []
    games = []
    for l in open(os.path.join(wd, "gl.move.ndjson")):
        e = json.loads(l)
        if e["ev"] == "Reset":
            game = [pos_to_fen(e["pos"])]
            games.append(game)
        elif e["ev"] == "Move":
            game.append(pos_to_fen(e["next"]))
    for g in games:
        roots = g[0:13:2]
        if len(roots) >= 3:
            sid += 1
            d = rnd.choice([2, 3, 3])
            sessions.append({"id": sid, "steps": [{"fen": f, "depth": d, "seed": rnd.randrange(1 << 30), "workers": 1 + (k % 2), "tables": 8, "buckets": 1024, "reuse": k > 0, "tag": "game-like"}
                                                   for k, f in enumerate(roots)]})
    # ... and along the line the engine itself reported (the opponent answers as expected): two plies further each time
    for i in range(40 if quick else 600):
        f = fens[(i * 17 + 3) % len(fens)]
        d = rnd.choice([3, 3, 4])
        sid += 1
        first = {"fen": f, "depth": d, "seed": rnd.randrange(1 << 30), "workers": 1, "tables": 8, "buckets": 1024, "tag": "follow-own-line"}
        sessions.append({"id": sid, "steps": [first] + [{"follow": 2, "depth": d, "seed": rnd.randrange(1 << 30), "workers": 1 + (k % 2), "reuse": True, "tables": 8, "buckets": 1024, "tag": "follow-own-line"}
                                                        for k in range(3)]})
    traces = run_scripts(wvbin, wd, "c03", sessions)
    validate_search_traces(chk, traces, pid)
    # white box: the workers' own event streams against the algorithmic model (stored moves legal, keys functional)
    wbs = []
    for i in range(8 if quick else 60):
        f = fens[(i * 7) % len(fens)]
        w = [1, 2, 3][i % 3]
        st = {"fen": f, "depth": 2 if i % 2 else 3, "seed": rnd.randrange(1 << 30), "workers": w, "tables": 2, "buckets": 256, "tag": "whitebox"}
        if w > 1:
            st["sched"] = [rnd.randrange(1 << 30), 0.5]
        steps = [st]
        if i % 4 == 0:
            steps.append(dict(st, reuse=True, seed=rnd.randrange(1 << 30), depth=2))
        wbs.append({"id": 900000 + i, "steps": steps})
    whitebox(chk, wvbin, wd, pid, wbs)
    cli_evaluate(chk, wd, pid, fens + [f for f in TERMINAL_FENS], rnd, 10 if quick else 150)
    uci_pv_part(chk, wd, pid, fens, rnd, 12 if quick else 150)
    st, samples = trace_stats(traces)
    chk.coverage.update({"evaluations": st["searches"], "distinct_nontrivial": st["multi_worker"] + st["reused_memory"],
                         "rule": "searches of corpus and random-play positions through the hooked synchronous entry point (depth 1-4, seeds, 1-32 workers, seeded schedules of the workers' table accesses, table sizes down to one bucket), and sessions that reuse one memory across a root and its specification-generated variants (castling rights / en-passant / side), neighbours and unrelated positions; every reported line is replayed by TLC with Legal/Apply; non-trivial = searches with several workers or with a reused memory",
                         "samples": samples, "search_stats": st})
    chk.assumptions += ["the hooked entry point calls the same analyze_iterative as the public API"]
    chk.finish()


TERMINAL_FENS = ["7k/5Q2/6K1/8/8/8/8/8 b - - 0 1", "R5k1/5ppp/8/8/8/8/8/6K1 b - - 0 1"]


def cli_evaluate(chk, wd, pid, fens, rnd, n):
    """`weechess evaluate --fen F --max-depth D --seed S`: the lines it prints (Peg spelling) judged by SearchTrace!TCliEval."""
    import uci_driver
    cli = build_cli()
    cases = [(fens[(i * 5) % len(fens)] if i >= 2 else TERMINAL_FENS[i], rnd.choice([1, 2, 3]), rnd.randrange(1 << 30)) for i in range(n)]

    def one(c):
        f, d, sd = c
        try:
            r = subprocess.run([cli, "evaluate", "--fen", f, "--max-depth", str(d), "--seed", str(sd)], capture_output=True, text=True, timeout=600)
            rc, out = r.returncode, r.stdout
        except subprocess.TimeoutExpired:
            rc, out = -999, ""
        lines = []
        for l in out.splitlines():
            if l.startswith("[Best Move]"):
                rest = l.split(")", 1)[1].split() if ")" in l else []
                lines.append([list(t) for t in rest])
        return {"ev": "CliEval", "fen": f, "pos": uci_driver.fen_to_pos(f), "depth": d, "seed": str(sd), "status": rc, "lines": lines}
    with ThreadPoolExecutor(max_workers=6) as ex:
        evs = list(ex.map(one, cases))
    path = os.path.join(wd, "clieval.ndjson")
    with open(path, "w") as f:
        for e in evs:
            f.write(json.dumps(e) + "\n")
    res = tlc_many([dict(module="SearchTrace", trace=p, xmx="3g") for p in shard(path, min(NPROC, 4))])
    chk.add_tlc(res)
    from check import fold_diags
    fold_diags(chk, res, pid)
    chk.coverage["cli_evaluate"] = {"commands": len(evs), "lines_judged": sum(len(e["lines"]) for e in evs)}
    chk.coverage["traces_validated_against_impl"] = chk.coverage.get("traces_validated_against_impl", 0) + 1


def uci_pv_part(chk, wd, pid, fens, rnd, n):
    """The lines the front end prints while it searches (`info pv ...`, coordinate notation) judged by UciTrace.tla."""
    import uci_driver
    import ucichecks
    cli = build_cli()
    sessions = []
    for i in range(n):
        f = fens[(i * 13) % len(fens)]
        pc = {"kind": "position", "line": "position fen " + f, "base": "fen", "fen": list(f), "pos": uci_driver.fen_to_pos(f), "moves": [], "valid": True}
        go = rnd.choice(["go depth 2", "go depth 3", "go depth 4", "go movetime 150"])
        sessions.append((400000 + i, True, "immediate", [pc, {"kind": "go", "line": go}, {"kind": "wait", "line": "", "timeout": 60.0}, {"kind": "quit", "line": "quit"}]))
    traces = ucichecks.run_sessions(cli, wd, "ucipv", sessions, parallel=6)
    res = tlc_many([dict(module="UciTrace", trace=t, xmx="3g", timeout=3000) for t in traces])
    chk.add_tlc(res)
    npv = 0
    for t in traces:
        for l in open(t):
            npv += '"kind": "pv"' in l
    for r in res:
        for d in r["diags"]:
            w = d.get("what", {})
            if d.get("prop") == "TOOL":
                tool_error("driver/specification mismatch: %s" % json.dumps(d))
            if d.get("prop") == pid:
                chk.violation("|".join([pid, "uci", str(w.get("kind")), str(w.get("pos", ""))]), "UCI: %s: %s" % (w.get("kind"), json.dumps({a: b for a, b in w.items() if a != "kind"}, sort_keys=True)),
                              {"module": "UciTrace", "trace": r["trace"], "diag": d})
    chk.coverage["uci_pv_lines"] = {"sessions": n, "lines_judged": npv}
    chk.coverage["traces_validated_against_impl"] = chk.coverage.get("traces_validated_against_impl", 0) + len(traces)


# ------------------------------------------------------------------ C04

def check_c04(pid, tier, seed):
    chk = Check(pid, tier, seed, "model_checking")
    wd = workdir(pid)
    wvbin = build()
    files = ensure_tb()
    tb = tb_load(files)
    quick = tier == "quick"
    rnd = random.Random(seed * 17 + 4)
    search_models(chk, pid, quick)
    sessions = []
    sid = 0
    # (a) node-indexed Stop on small searches: every node index (or a stride over it)
    small = ["8/8/8/4k3/8/8/4K2R/8 w - - 0 1", "6k1/5ppp/8/8/8/8/8/3RK3 w - - 0 1", "5K1k/6pP/6P1/8/6p1/6P1/8/8 w - - 0 1", "8/8/8/8/8/k2r4/8/K7 b - - 0 1",
             "4k3/p6p/Pp4pP/1Pp2pP1/2Pp1P2/3P4/8/4K2R w K - 0 1", "8/5k2/8/8/8/8/3P4/4K3 w - - 0 1"]
    for f in small:
        for w, depth in ((1, 3), (2, 4), (4, 4), (1, None)):
            total = 400 if depth else 300
            step = (7 if quick else 1)
            for n in list(range(0, 40, 1 if not quick else 3)) + list(range(40, total, step * 5)):
                sid += 1
                sessions.append({"id": sid, "steps": [
                    {"fen": f, "depth": depth, "seed": rnd.randrange(1 << 30), "workers": w, "cancel_at": n, "tables": 2, "buckets": 64, "tag": "cancel"},
                    {"fen": rnd.choice(small), "depth": 2, "seed": 5, "workers": 1, "reuse": True, "tag": "seeded-by-returned-artifact"}]})
    # (c) terminal roots: checkmates and stalemates (selected from the table; status is re-decided by TLC)
    for piece in ("R", "Q"):
        for i in sample_slots(tb[piece], lambda c: c == 2, 25 if quick else 400, rnd, stm=1):
            sid += 1
            sessions.append({"id": sid, "steps": [{"fen": tb_fen(piece, i, mirror=sid % 2 == 0), "depth": rnd.choice([1, 3, None]), "seed": sid, "workers": rnd.choice([1, 2]), "tag": "mated-root"},
                                                  {"fen": small[0], "depth": 2, "seed": 5, "workers": 1, "reuse": True, "tag": "seeded-by-returned-artifact"}]})
    for f in ["7k/5Q2/6K1/8/8/8/8/8 b - - 0 1", "k7/2Q5/1K6/8/8/8/8/8 b - - 0 1", "3R2k1/5ppp/8/8/8/8/8/4K3 b - - 0 1", "5k2/5P2/5K2/8/8/8/8/8 b - - 0 1",
              "r1bqkbnr/pppp1Qpp/2n5/4p3/2B1P3/8/PPPP1PPP/RNB1K1NR b KQkq - 0 3"]:
        sid += 1
        sessions.append({"id": sid, "steps": [{"fen": f, "depth": 3, "seed": sid, "workers": 1, "tag": "terminal-root"}, {"fen": f, "depth": None, "seed": sid, "workers": 2, "reuse": True, "tag": "terminal-root"}]})
    # (c') the side to move is being mated (non-terminal): Stop must be obeyed after the search has seen the mate
    for piece in ("R", "Q"):
        for i in sample_slots(tb[piece], lambda c: c in (4, 6), 6 if quick else 60, rnd, stm=1):
            for n in (60, 800, 6000):
                sid += 1
                sessions.append({"id": sid, "steps": [{"fen": tb_fen(piece, i, mirror=sid % 2 == 0), "depth": None, "seed": sid, "workers": rnd.choice([1, 2]), "cancel_at": n, "tables": 2, "buckets": 256,
                                                       "max_ms": 20000, "tag": "stop-while-being-mated"}]})
    for f in ["8/7q/8/8/8/8/2k5/K7 w - - 0 1", "6k1/5ppp/8/8/8/8/r7/1r4K1 w - - 0 1"]:
        for n in (30, 300, 3000):
            sid += 1
            sessions.append({"id": sid, "steps": [{"fen": f, "depth": None, "seed": sid, "workers": 1, "cancel_at": n, "tables": 2, "buckets": 256, "max_ms": 20000, "tag": "stop-while-being-mated"}]})
    # (d) tiny trees without a depth limit: they only end through Stop
    for f in ["5K1k/6pP/6P1/8/6p1/6P1/8/8 w - - 0 1", "7k/6pP/6P1/8/8/8/8/7K w - - 0 1", "k7/P7/K7/8/8/8/8/8 b - - 0 1"]:
        for n in ([0, 1, 3, 10, 100, 2000] if quick else list(range(0, 60)) + [100, 1000, 5000, 20000]):
            sid += 1
            sessions.append({"id": sid, "steps": [{"fen": f, "depth": None, "seed": sid, "workers": rnd.choice([1, 2, 4]), "cancel_at": n, "tables": 1, "buckets": 8, "tag": "tiny-tree"}]})
    # capture-rich positions whose quiescence search dwarfs the rest of an iteration: Stop inside it
    for f, sd in [("rnb2bnr/p4k2/4p1p1/1ppp1pqp/P1PPPBPP/NP3N2/5P2/R1Q1KB1R b KQ - 1 11", 720311088), ("rnb2bnr/p4k2/4p1p1/1ppp1pqp/P1PPPBPP/NP3N2/5P2/R1Q1KB1R b KQ - 1 11", 828183614)]:
        for n in (210, 400):
            sid += 1
            sessions.append({"id": sid, "steps": [{"fen": f, "depth": 4, "seed": sd, "workers": 1, "cancel_at": n, "tag": "stop-in-quiescence"}]})
    # depth-limited searches of ordinary positions end by themselves
    fens = corpus_fens()
    for i in range(40 if quick else 600):
        sid += 1
        sessions.append({"id": sid, "steps": [{"fen": fens[i % len(fens)], "depth": rnd.choice([1, 2, 3]), "seed": sid, "workers": rnd.choice([1, 2, 8]), "tag": "depth-limited"}]})
    traces = run_scripts(wvbin, wd, "c04", sessions, per_session_timeout=30)
    # (b) public API: Stop at wall-clock instants, repeated, receiver dropped or kept
    pub = []
    for i in range(10 if quick else 60):
        pub.append({"id": 100000 + i, "fen": rnd.choice(small + fens[:6]), "depth": rnd.choice([None, None, 3]), "seed": i, "stop_after_ms": rnd.choice([0, 0, 1, 5, 30, 120]),
                    "stops": rnd.choice([1, 2]), "drop_receiver": i % 2 == 1, "reuse": True, "tag": "public-api"})
    for i, f in enumerate(["5K1k/6pP/6P1/8/6p1/6P1/8/8 w - - 0 1", "8/8/4k3/8/8/4K3/8/8 w - - 0 1", "7k/6pP/6P1/8/8/8/8/7K w - - 0 1"]):
        # tiny trees run through hundreds of iterations per second: many status events queue up while nobody reads them
        pub.append({"id": 110000 + i, "fen": f, "depth": None, "seed": i, "stop_after_ms": 2600 + 300 * i, "stops": 1, "drop_receiver": False, "reuse": False, "tag": "public-api-many-events"})
        pub.append({"id": 110100 + i, "fen": f, "depth": 24, "seed": i, "stops": 0, "drop_receiver": False, "reuse": True, "tag": "public-api-deep-limit"})
    pub_sessions = [pub[i::2] for i in range(2)]
    ptraces = []
    for i, ps in enumerate(pub_sessions):
        script = os.path.join(wd, "pub_%d.jsonl" % i)
        with open(script, "w") as f:
            for s in ps:
                f.write(json.dumps(s) + "\n")
        ptraces.append((script, os.path.join(wd, "pub_%d.ndjson" % i)))

    def runpub(sp):
        script, tr = sp
        try:
            subprocess.run([wvbin, "search-public", "--script", script, "--out", tr], capture_output=True, text=True, timeout=240)
        except subprocess.TimeoutExpired:
            with open(tr, "a") as f:
                f.write(json.dumps({"ev": "SearchEnd", "status": "timeout", "ms": 10 ** 8, "ms_after_cancel": -1, "nodes": 0, "nodes_after_cancel": 0, "history_len": 0, "entries": 0,
                                    "sched": {"grants": 0, "switches": 0, "degraded": False}}) + "\n")
        return tr
    with ThreadPoolExecutor(max_workers=2) as ex:
        traces += [t for t in ex.map(runpub, ptraces) if os.path.exists(t)]
    validate_search_traces(chk, traces, pid, files=files, hang_ms=5000)
    st, samples = trace_stats(traces)
    chk.coverage.update({"evaluations": st["searches"], "distinct_nontrivial": st["cancelled"] + st["terminal_roots"],
                         "rule": "searches with the cancellation flag set at an exact node index (every index of the first 40, then strided) for 1/2/4 workers and with/without depth limit, each followed by a search seeded with the returned artifact; checkmated/stalemated roots (selected from the TLC-checked tables, both colours); tiny game trees without depth limit that only end through Stop; the public threaded API with Stop at sampled instants, repeated Stop, receiver kept or dropped; non-trivial = stopped searches and terminal roots",
                         "samples": samples, "search_stats": st})
    chk.assumptions += ["a harness process that makes no progress for 30 s per pending session is killed and the dangling search is judged as a timeout", "hang-detector limit 5 s after Stop (the code needs milliseconds)"]
    chk.finish()


# ------------------------------------------------------------------ C06 / C17

def mate_sessions(tb, rnd, quick, sid0=0):
    sessions = []
    sid = sid0
    nper = 260 if quick else 4000
    for piece in ("R", "Q"):
        for code in (3, 5, 7):
            n = code - 2
            for i in sample_slots(tb[piece], lambda c: c == code, nper, rnd):
                for d in (n, n + 1, n + 2):
                    # the exact depth d = n is where a stale table entry or an off-by-one depth bites first
                    if d > n and rnd.random() < (0.75 if quick else 0.5):
                        continue
                    sid += 1
                    w = rnd.choice([1, 1, 2, 3, 8, 32])
                    st = {"fen": tb_fen(piece, i, mirror=sid % 3 == 0), "depth": d, "seed": rnd.randrange(1 << 30), "workers": w, "tables": 8, "buckets": 1024, "tag": "win%d" % n}
                    if w > 1 and sid % 2:
                        st["sched"] = [rnd.randrange(1 << 30), rnd.choice([0.0, 0.5, 0.9])]
                    sessions.append({"id": sid, "steps": [st]})
        # soundness: drawn and longer-won positions, and the defender to move
        for i in sample_slots(tb[piece], lambda c: c == 1 or c >= 11, nper // 3, rnd) + sample_slots(tb[piece], lambda c: c >= 1, nper // 3, rnd, stm=1):
            sid += 1
            sessions.append({"id": sid, "steps": [{"fen": tb_fen(piece, i, mirror=sid % 3 == 0), "depth": rnd.choice([2, 3, 4, 5]), "seed": rnd.randrange(1 << 30), "workers": rnd.choice([1, 2, 4]), "tag": "sound"}]})
    return sessions, sid


def mate_certificates(chk, wvbin, wd, pid, quick, seed):
    """C06 outside the tablebase families: every mate claim of the engine on tactical / adversarial / random positions must be
    provable move by move (CertTrace.tla)."""
    fens = [l.strip() for l in open(os.path.join(CORPUS, "mates.fen")) if l.strip() and not l.startswith("#")]
    # the same with colours swapped (every second one in the quick tier): nothing in the property depends on the colour
    fens += [mirror_fen(f) for i, f in enumerate(fens) if not quick or (i + seed) % 2 == 0]
    fens += corpus_fens() + play_fens(wvbin, wd, seed + 5, 20 if quick else 300, 60, every=4)
    fpath = os.path.join(wd, "cert_fens.txt")
    with open(fpath, "w") as f:
        f.write("\n".join(fens) + "\n")
    jobs = []
    per = max(1, (len(fens) + NPROC - 1) // NPROC)
    for lo in range(0, len(fens), per):
        jobs.append((0, lo, min(len(fens), lo + per), os.path.join(wd, "cert_%04d.ndjson" % lo)))

    def gen(j):
        _, lo, hi, path = j
        empty = {"roots": 0, "with_forced_mate_within_5": 0, "solver_budget_exhausted": 0, "engine_searches": 0, "incomplete": 1}
        try:
            r = subprocess.run([wvbin, "mate-cert", "--fens", fpath, "--lo", str(lo), "--hi", str(hi), "--seed", str(seed), "--budget", str(300000 if quick else 3000000), "--out", path],
                               capture_output=True, text=True, timeout=2400)
            summ = json.loads(r.stdout.strip().splitlines()[-1]) if r.returncode == 0 else empty
        except subprocess.TimeoutExpired:
            summ = empty
        return summ
    with ThreadPoolExecutor(max_workers=NPROC) as ex:
        summs = list(ex.map(gen, jobs))
    res = tlc_many([dict(module="CertTrace", trace=j[3], xmx="4g", timeout=3000) for j in jobs if os.path.exists(j[3]) and os.path.getsize(j[3]) > 0])
    chk.add_tlc(res)
    rejected = sum(1 for r in res for k in r["skips"] if "certificate rejected" in json.dumps(k))
    inconclusive = sum(1 for r in res for k in r["skips"] if "inconclusive" in json.dumps(k))
    from check import fold_diags
    fold_diags(chk, res, pid)
    tot = {"roots": 0, "with_forced_mate_within_5": 0, "solver_budget_exhausted": 0, "engine_searches": 0, "incomplete": 0}
    for sm in summs:
        for k in tot:
            tot[k] += sm.get(k, 0)
    tot["certificates_rejected_by_tlc"] = rejected
    tot["first_move_inconclusive"] = inconclusive
    chk.coverage["mate_certificates"] = tot
    chk.coverage["traces_validated_against_impl"] = chk.coverage.get("traces_validated_against_impl", 0) + len(jobs)
    return tot


def check_c06(pid, tier, seed):
    chk = Check(pid, tier, seed, "model_checking")
    wd = workdir(pid)
    wvbin = build()
    files = ensure_tb()
    tb = tb_load(files)
    quick = tier == "quick"
    rnd = random.Random(seed * 13 + 6)
    search_models(chk, pid, quick)
    sessions, sid = mate_sessions(tb, rnd, quick)
    traces = run_scripts(wvbin, wd, "c06", sessions)
    validate_search_traces(chk, traces, pid, files=files)
    mate_certificates(chk, wvbin, wd, pid, quick, seed)
    # white box on mate / look-alike positions (terminal scoring, history hits inside the tree): conformance only
    mfens = [l.strip() for l in open(os.path.join(CORPUS, "mates.fen")) if l.strip() and not l.startswith("#")]
    wbs = [{"id": 900000 + i, "steps": [{"fen": f, "depth": 4 if len([c for c in f.split()[0] if c.isalpha()]) <= 14 else 3, "seed": rnd.randrange(1 << 30), "workers": 1 + i % 2, "tables": 2, "buckets": 256, "tag": "whitebox"}]}
           for i, f in enumerate(mfens if not quick else mfens[seed % 3::3])]
    # the look-alikes in which a check lands on the horizon: every capture search logged node by node (no sampling), so that
    # SearchWB's soundness clause sees each being-mated score the capture search returns
    for i, f in enumerate(mfens[-14:] if not quick else mfens[-14:][seed % 2::2]):
        for d in ((1, 2) if quick else (1, 2, 3)):
            wbs.append({"id": 950000 + 10 * i + d, "steps": [{"fen": f, "depth": d, "seed": rnd.randrange(1 << 30), "workers": 1, "tables": 2, "buckets": 256, "tag": "whitebox-horizon",
                                                              "qs_every": 1, "qs_budget": 3000 if quick else 40000}]})
    whitebox(chk, wvbin, wd, pid, wbs)
    st, samples = trace_stats(traces)
    ver = json.load(open(os.path.join(WORK, "tb", "verified.json")))
    chk.coverage.update({"evaluations": st["searches"], "distinct_nontrivial": st["mate_reports"],
                         "rule": "K+R v K and K+Q v K positions (both colours attacking) drawn from tablebases whose every entry TLC checked against Chess.tla: forced mates in 1/3/5 plies searched with fresh memory at depth n..n+2 (completeness), draws / longer wins / defender-to-move positions (soundness), 1-32 workers with seeded schedules; SearchTrace.tla decides each report with the checked table; plus strategy certificates (CertTrace.tla) for every mate the engine claims on tactical, adversarial (perpetual-check, stalemate-trap) and random-play positions; non-trivial = searches that reported a mate",
                         "samples": samples, "search_stats": st, "tablebase_slots_checked_by_tlc": ver["index_slots_checked"]})
    chk.assumptions += ["the tables are accepted only after spec/TbCheck.tla holds at every index slot (stamp over specification, checker, solver, tables)"]
    chk.finish()


def check_c17(pid, tier, seed):
    chk = Check(pid, tier, seed, "model_checking")
    wd = workdir(pid)
    wvbin = build()
    files = ensure_tb()
    tb = tb_load(files)
    quick = tier == "quick"
    rnd = random.Random(seed * 19 + 17)
    search_models(chk, pid, quick)
    sessions = []
    sid = 0
    want = 150 if quick else 3000
    for piece in ("R", "Q"):
        got = 0
        tries = 0
        while got < want and tries < want * 300:
            tries += 1
            i = rnd.randrange(0, 262144)
            c = tb[piece][i]
            if c not in (3, 5, 7):
                continue
            succ = [j for j in white_successors(piece, i) if tb[piece][j] == c - 1]
            if len(succ) < 2:
                continue
            got += 1
            n = c - 2
            s = rnd.choice(succ)
            mirror = got % 3 == 0
            P, S = tb_fen(piece, i, mirror), tb_fen(piece, s, mirror)
            d = rnd.choice([n, n + 1, n + 2])
            w = rnd.choice([1, 1, 2, 8])
            sid += 1
            if got % 2:
                # (i) recorded through the hook, cold table
                sessions.append({"id": sid, "steps": [{"fen": P, "history": [S], "depth": d, "seed": rnd.randrange(1 << 30), "workers": w, "tag": "cold"}]})
            else:
                # (ii) the way it happens in a game: S was searched before on the same memory (warm table)
                sessions.append({"id": sid, "steps": [{"fen": S, "depth": rnd.choice([d, d + 1, max(1, d - 1)]), "seed": rnd.randrange(1 << 30), "workers": 1, "tag": "warm-up"},
                                                      {"fen": P, "reuse": True, "depth": d, "seed": rnd.randrange(1 << 30), "workers": w, "tag": "warm"}]})
    # a root whose only moves re-enter recorded positions: every line is a draw, so the report must say 0
    for piece in ("R", "Q"):
        got = 0
        tries = 0
        while got < (40 if quick else 600) and tries < 400000:
            tries += 1
            i = rnd.randrange(262144, 524288)
            if tb[piece][i] < 3:
                continue
            succ = black_successors(piece, i)
            if not succ or -1 in succ or len(succ) > 2:
                continue
            got += 1
            mirror = got % 2 == 0
            sid += 1
            sessions.append({"id": sid, "steps": [{"fen": tb_fen(piece, i, mirror), "history": [tb_fen(piece, j, mirror) for j in succ], "depth": rnd.choice([2, 3, 4]), "seed": rnd.randrange(1 << 30),
                                                   "workers": rnd.choice([1, 1, 2]), "tag": "all-moves-recorded"}]})
    # the repository's own scenario
    sid += 1
    sessions.append({"id": sid, "steps": [{"fen": "8/8/8/8/8/k2r4/8/K7 b - - 0 1", "depth": 3, "seed": 1, "workers": 1, "tag": "repo-scenario"}]})
    # roots outside the tablebase families that still hold a castling right: the recorded successors are the ones reached by the
    # quiet king / rook moves that give the right up (the recorded key and the key met in the search must still agree)
    hroots = [l.strip().split(" | ") for l in open(os.path.join(CORPUS, "history_roots.txt")) if l.strip() and not l.startswith("#")]
    for i, h in enumerate(hroots if not quick else hroots[seed % 2::2]):
        root, succs = h[0], [x.strip() for x in h[1].split(";")]
        for d in (3, 4):
            sid += 1
            sessions.append({"id": sid, "steps": [{"fen": root, "depth": d, "seed": rnd.randrange(1 << 30), "workers": 1, "history": succs, "tag": "castling-right-history"}]})
    # long games: the recorded successor first, then sixty unrelated positions recorded after it (a memory late in a game)
    filler = play_fens(wvbin, wd, seed + 17, 4, 60, every=3)
    base = [s for s in sessions if len(s["steps"]) == 1 and s["steps"][0].get("history")]
    for i, s0 in enumerate(base[:(30 if quick else 300)]):
        st0 = s0["steps"][0]
        rnd.shuffle(filler)
        sid += 1
        sessions.append({"id": sid, "steps": [dict(st0, history=list(st0["history"]) + filler[:60], seed=rnd.randrange(1 << 30), tag=(st0.get("tag") or "") + "+long-history")]})
    traces = run_scripts(wvbin, wd, "c17", sessions)
    validate_search_traces(chk, traces, pid, files=files)
    # white box: every history hit / probe of the workers against the model's HistoryHit rule
    small = [s for s in sessions if all((st.get("depth") or 9) <= 3 for st in s["steps"])]
    wbs = [dict(s, id=900000 + i, steps=[dict(st) for st in s["steps"]]) for i, s in enumerate(small[:(10 if quick else 80)])]
    whitebox(chk, wvbin, wd, pid, wbs)
    st, samples = trace_stats(traces)
    chk.coverage.update({"evaluations": st["searches"], "distinct_nontrivial": st["with_history"],
                         "rule": "tablebase positions (TLC-checked) with at least two optimal mate-preserving first moves; the successor of one is recorded in the search memory either through the hook (cold table) or by searching it first on the same memory (warm table, as in a game); depth n..n+2, seeds, 1-8 workers; SearchTrace.tla requires a mate report whose first move avoids every recorded position; non-trivial = searches with a non-empty history",
                         "samples": samples, "search_stats": st})
    chk.finish()


# ------------------------------------------------------------------ C19

def check_c19(pid, tier, seed):
    chk = Check(pid, tier, seed, "exploration")
    wd = workdir(pid)
    wvbin = build()
    quick = tier == "quick"
    rnd = random.Random(seed * 23 + 19)
    search_models(chk, pid, quick)
    # positions from long random games as well (thinned-out middlegames and endgames), mostly at depth 3-4: anything whose
    # outcome depends on an iteration order, an address or a clock shows as a difference between runs only now and then
    fens = corpus_fens() + play_fens(wvbin, wd, seed, 10 if quick else 60, 120, every=5)
    rnd.shuffle(fens)
    cases = []
    for i in range(400 if quick else 6000):
        cases.append({"fen": fens[i % len(fens)], "depth": rnd.choice([1, 2, 3, 3, 3, 4, 4]), "seed": rnd.randrange(1 << 30), "workers": 1})
    sessions = []
    for i, c in enumerate(cases):
        # run A and run B in the same process, fresh memory each
        sessions.append({"id": i, "steps": [dict(c, tag="A"), dict(c, tag="B")]})
    tr1 = run_scripts(wvbin, wd, "c19ab", sessions)
    tr2 = run_scripts(wvbin, wd, "c19c", [{"id": s["id"], "steps": [dict(s["steps"][0], tag="C")]} for s in sessions])

    shallow = {}

    def collect(traces):
        runs = {}
        cur = None
        for t in traces:
            for l in open(t):
                e = json.loads(l)
                if e["ev"] == "SearchStart":
                    cur = (e["sid"], e["tag"])
                    runs[cur] = []
                elif e["ev"] in ("Report", "Progress"):
                    runs[cur].append(json.dumps(e, sort_keys=True))
                elif e["ev"] == "SearchEnd":
                    runs[cur].append("end:%s:nodes=%s" % (e["status"], e["nodes"]))
                    shallow[cur] = e.get("shallow_workers", 0)
        return runs
    ab, c = collect(tr1), collect(tr2)
    # public entry point (threaded, one worker below depth 3): A/B in one process, C in another
    pub = [{"id": 500000 + i, "fen": fens[i], "depth": rnd.choice([1, 2, 3]), "seed": rnd.randrange(1 << 30), "reuse": False, "tag": "P"} for i in range(4 if quick else 24)]
    # capture-rich positions whose early iterations are slow (anything that adapts the worker count to timing shows here)
    for k, f in enumerate(["q2k2q1/2nqn2b/1n1P1n2/2rnr3/1NQ1QN2/3Q3B/2RQR3/3K2Q1 w - - 0 1", "rnb2bnr/p4k2/4p1p1/1ppp1pqp/P1PPPBPP/NP3N2/5P2/R1Q1KB1R b KQ - 1 11"]):
        for r in range(2 if quick else 6):
            pub.append({"id": 510000 + 10 * k + r, "fen": f, "depth": 2 if quick or r % 2 == 0 else 3, "seed": rnd.randrange(1 << 30), "reuse": False, "tag": "P"})
    # searches share nothing: run A of these has an unrelated, unbounded analysis running beside it in the same process
    for k in range(3 if quick else 16):
        pub.append({"id": 520000 + k, "fen": fens[(k * 5 + 1) % len(fens)], "depth": 3, "seed": rnd.randrange(1 << 30), "reuse": False, "tag": "P"})
    # one process pair per case, so that run A is the *first* fresh search of its process and run B a later one
    ptr = []
    for j, pcase in enumerate(pub):
        for k, tagset in enumerate((["A", "B"], ["C"])):
            script = os.path.join(wd, "c19pub_%d_%d.jsonl" % (j, k))
            with open(script, "w") as f:
                for tg in tagset:
                    # every second case: run A has an unrelated unbounded analysis running beside it in the same process
                    extra = {"background": "r3k2r/p1ppqpb1/bn2pnp1/3PN3/1p2P3/2N2Q1p/PPPBBPPP/R3K2R w KQkq - 0 1"} if tg == "A" and pcase["id"] >= 520000 else {}
                    # run A reads the events while the search runs, B and C after it has ended
                    f.write(json.dumps(dict(pcase, tag=tg, reader="live" if tg == "A" else "after", **extra)) + "\n")
            ptr.append((script, os.path.join(wd, "c19pub_%d_%d.ndjson" % (j, k)), k))
    with ThreadPoolExecutor(max_workers=6) as ex:
        list(ex.map(lambda sp: subprocess.run([wvbin, "search-public", "--script", sp[0], "--out", sp[1]], capture_output=True, timeout=3000), ptr))
    pab, pc = collect([p[1] for p in ptr if p[2] == 0]), collect([p[1] for p in ptr if p[2] == 1])
    path = os.path.join(wd, "repro.ndjson")
    n = 0
    with open(path, "w") as f:
        for s in sessions:
            a, b, cc = ab.get((s["id"], "A")), ab.get((s["id"], "B")), c.get((s["id"], "C"))
            if a is None or b is None or cc is None:
                tool_error("missing run for repro case %s" % s["id"])
            st = s["steps"][0]
            f.write(json.dumps({"ev": "Repro", "fen": st["fen"], "seed": str(st["seed"]), "depth": st["depth"], "api": "hook", "shallow_workers": 0, "a": a, "b": b, "c": cc}) + "\n")
            n += 1
        for p in pub:
            a, b, cc = pab.get((p["id"], "A")), pab.get((p["id"], "B")), pc.get((p["id"], "C"))
            if a is None or b is None or cc is None:
                tool_error("missing public run for repro case %s" % p["id"])
            f.write(json.dumps({"ev": "Repro", "fen": p["fen"], "seed": str(p["seed"]), "depth": p["depth"], "api": "public", "shallow_workers": max(shallow.get((p["id"], t), 0) for t in "ABC"), "a": a, "b": b, "c": cc}) + "\n")
            n += 1
    # the same through the command line (`weechess evaluate --fen F --max-depth D --seed S`, two processes)
    cli = build_cli()

    def cli_run(c):
        try:
            out = subprocess.run([cli, "evaluate", "--fen", c["fen"], "--max-depth", str(c["depth"]), "--seed", str(c["seed"])], capture_output=True, text=True, timeout=900).stdout
        except subprocess.TimeoutExpired:
            return ["timeout"]
        keep = []
        for ln in out.splitlines():
            if ln.startswith("[Best Move]"):
                keep.append(ln)
            elif ln.startswith("[Progress"):
                keep.append(" ".join(t for t in ln.split() if t.startswith("depth=") or t.startswith("nodes=")))
        return keep
    clis = [{"fen": fens[(i * 3) % len(fens)], "depth": rnd.choice([1, 2, 3]), "seed": rnd.randrange(1 << 30)} for i in range(5 if quick else 60)]
    with ThreadPoolExecutor(max_workers=6) as ex:
        r1 = list(ex.map(cli_run, clis))
        r2 = list(ex.map(cli_run, clis))
    with open(path, "a") as f:
        for c, a, b in zip(clis, r1, r2):
            f.write(json.dumps({"ev": "Repro", "fen": c["fen"], "seed": str(c["seed"]), "depth": c["depth"], "api": "cli", "shallow_workers": 0, "a": a, "b": a, "c": b}) + "\n")
            n += 1
    shards = shard(path, NPROC)
    res = tlc_many([dict(module="SearchTrace", trace=p, xmx="3g") for p in shards])
    chk.add_tlc(res)
    from check import fold_diags
    fold_diags(chk, res, pid)
    drift = [d["what"] for r in res for d in r["diags"] if d.get("prop") == "DRIFT"]
    if drift:
        chk.notes.append("model drift: %s" % json.dumps(drift[:3]))
        print("MODEL-DRIFT property=%s the control model (Search.tla: one worker below depth 3 through the public entry point) no longer describes the code: %s" % (pid, json.dumps(drift[0])))
    first = json.loads(open(path).readline())
    distinct = len({(s["steps"][0]["fen"], s["steps"][0]["seed"], s["steps"][0]["depth"]) for s in sessions}) + len(pub)
    chk.coverage.update({"evaluations": n * 3, "distinct_nontrivial": distinct, "traces_validated_against_impl": len(shards),
                         "rule": "(position, seed, depth) triples: each searched three times with fresh memory and one worker - twice in one process (some public triples have an unrelated unbounded analysis running beside their first run), once in another - through the hooked entry point (depth 1-4) and through the public threaded entry point (depth 1-3), and twice through the `weechess evaluate` command line; the complete sequences of reports (lines, evaluations) and progress events (node counts) must be identical (SearchTrace!TRepro); distinct = distinct triples",
                         "samples": [{"fen": first["fen"], "seed": first["seed"], "depth": first["depth"], "run_a": first["a"][:2]}]})
    chk.finish()
