"""Thread-level UCI sessions: drives the real `weechess uci` with the thread-event hook on, merges the engine's numbered
events with the commands that were sent, and has TLC validate the result against UciThreads.tla (UciThreadsTrace.tla)."""
import json
import os
import random
import time
from concurrent.futures import ThreadPoolExecutor

import uci_driver
from wvlib import NPROC, build_cli, tlc_many, tool_error

OPEN = ["r3k2r/p1ppqpb1/bn2pnp1/3PN3/1p2P3/2N2Q1p/PPPBBPPP/R3K2R w KQkq - 0 1",
        "8/2p5/3p4/KP5r/1R3p1k/8/4P1P1/8 w - - 0 1",
        "r4rk1/1pp1qppp/p1np1n2/2b1p1B1/2B1P1b1/P1NP1N2/1PP1QPPP/R4RK1 w - - 0 10",
        "4k3/8/8/8/8/8/4P3/4K3 w - - 0 1",
        "q2k2q1/2nqn2b/1n1P1n2/2rnr3/1NQ1QN2/3Q3B/2RQR3/3K2Q1 w - - 0 1"]
TERM = ["7k/5Q2/6K1/8/8/8/8/8 b - - 0 1",        # stalemate
        "R5k1/5ppp/8/8/8/8/8/6K1 b - - 0 1"]      # checkmate
GO = ["go depth 1", "go depth 2", "go depth 3", "go depth 30", "go movetime 0", "go movetime 60", "go movetime 250", "go", "go depth 4 movetime 150"]


def plan(rnd, ncmds):
    cmds = []
    kind = "open"
    gos = 0
    for _ in range(ncmds):
        r = rnd.random()
        if r < 0.40 and gos < 15:
            cmds.append({"cmd": "go", "line": rnd.choice(GO), "kind": kind})
            gos += 1
        elif r < 0.60:
            kind = "term" if rnd.random() < 0.25 else "open"
            cmds.append({"cmd": "position", "line": "position fen " + rnd.choice(TERM if kind == "term" else OPEN), "kind": kind})
        elif r < 0.75:
            cmds.append({"cmd": "stop", "line": "stop", "kind": "-"})
        elif r < 0.85:
            cmds.append({"cmd": "ucinewgame", "line": "ucinewgame", "kind": "-"})
        elif r < 0.93:
            cmds.append({"cmd": "isready", "line": "isready", "kind": "-"})
        else:
            cmds.append({"cmd": "garbage", "line": rnd.choice(["xyzzy", "go depth", "position fen 8/8 w", "stop now"]), "kind": "-"})
        cmds[-1]["pause"] = rnd.choice([0, 0, 0.005, 0.03, 0.12, 0.3, 0.45])
    cmds.append({"cmd": "quit", "line": "quit", "kind": "-", "pause": 0})
    return cmds


def classify(c):
    """What the client loop makes of the line (first word decides, as in Client::exec)."""
    w = c["line"].split()
    if not w:
        return "garbage"
    return w[0] if w[0] in ("go", "stop", "position", "ucinewgame", "isready", "quit") else "garbage"


def run_one(cli, sid, seed):
    rnd = random.Random(seed)
    cmds = plan(rnd, rnd.randrange(6, 22))
    eng = uci_driver.Engine(cli, env={"WEECHESS_VERIF_THREADS": "1"})
    eng.send("position fen " + OPEN[0])
    for c in cmds:
        eng.send(c["line"])
        if c["pause"]:
            time.sleep(c["pause"])
    try:
        status = eng.p.wait(timeout=40)
    except Exception:
        eng.p.kill()
        status = -999
    time.sleep(0.05)
    eng.drain_err()
    outs = []
    while True:
        try:
            x = eng.out.get_nowait()
        except Exception:
            break
        if x is not None:
            outs.append(x)
    th = []
    for x in eng.err_all:
        if x.startswith('verif {"ev":"Thread"'):
            try:
                th.append(json.loads(x[len("verif "):]))
            except ValueError:
                pass        # a line torn by another thread writing to stderr at the same moment (a panic message, for one)
    th.sort(key=lambda e: e["seq"])
    # merge: walk the commands with the client's own events (M_*) in order; everything else keeps its place
    main_ev = [e for e in th if e["a"].startswith("M_") or e["a"] == "A_Spawn"]
    merged = [{"ev": "Session", "session": sid, "seq": -1, "status": status}]
    inserts = {}           # seq of the main event before which synthetic commands are inserted
    tail = []
    k = 0                  # next main event
    held = False           # the client holds a search
    kind = "open"
    ok = True
    for c in cmds:
        w = classify(c)
        if w in ("isready", "garbage"):
            continue
        newkind = c["kind"] if w == "position" and c["cmd"] == "position" else kind      # a position line that does not parse changes nothing
        if held and w in ("go", "stop", "position", "ucinewgame", "quit"):
            if k >= len(main_ev) or main_ev[k]["a"] != "M_Stop":
                ok = False
                break
            main_ev[k]["cmd"] = w
            main_ev[k]["kind"] = newkind
            k += 3         # M_Stop, M_JoinC, M_JoinW
            held = False
            if w == "go":
                k += 2     # A_Spawn, M_Spawn
                held = True
        else:
            ev = {"ev": "M_Cmd", "cmd": w, "kind": newkind, "session": sid, "seq": -1}
            if k < len(main_ev):
                inserts.setdefault(main_ev[k]["seq"], []).append(ev)
            else:
                tail.append(ev)
            if w == "go":
                if k >= len(main_ev) or main_ev[k]["a"] != "A_Spawn":
                    ok = False
                    break
                k += 2     # A_Spawn, M_Spawn
                held = True
        if w == "position" and c["cmd"] == "position":
            kind = c["kind"]
        if w == "quit":
            break
    for e in th:
        for x in inserts.get(e["seq"], []):
            merged.append(x)
        merged.append(dict(e, session=sid))
    merged += tail
    return {"events": merged, "consistent": ok and k == len(main_ev), "status": status, "bestmoves": sum(1 for o in outs if o.startswith("bestmove")),
            "searches": sum(1 for e in th if e["a"] == "M_Spawn"), "timer_stops": sum(1 for e in th if e["a"] == "T_Fire")}


def thread_part(chk, pid, wd, quick, seed):
    cli = build_cli()
    n = 48 if quick else 600
    with ThreadPoolExecutor(max_workers=8) as ex:
        rs = list(ex.map(lambda i: run_one(cli, i, seed * 100003 + i), range(n)))
    # a session the driver had to kill (the engine did not exit within 40 s of quit) has an incomplete event stream: the hang
    # itself is C04's and C07's black-box business; here it is only left out
    killed = [i for i, r in enumerate(rs) if r["status"] == -999]
    if killed:
        chk.notes.append("thread sessions killed by the driver's 40 s exit timeout and left out of the thread-level validation: %s" % killed[:5])
    rs = [r for r in rs if r["status"] != -999]
    n = len(rs)
    bad = [i for i, r in enumerate(rs) if not r["consistent"]]
    if bad:
        chk.notes.append("thread sessions whose client events do not match the commands sent (left to the validator): %s" % bad[:5])
    paths = []
    per = max(1, (n + NPROC - 1) // NPROC)
    for i in range(0, n, per):
        pth = os.path.join(wd, "threads_%03d.ndjson" % i)
        with open(pth, "w") as f:
            for r in rs[i:i + per]:
                for e in r["events"]:
                    f.write(json.dumps(e) + "\n")
        paths.append(pth)
    res = tlc_many([dict(module="UciThreadsTrace", trace=p, xmx="3g", timeout=1800) for p in paths])
    chk.add_tlc([r for r in res if r["rc"] == 0 and not r["error"] and r["stuck"] is None])
    drift = {}
    for r in res:
        if r["rc"] != 0 or r["error"] or r["stuck"] is not None:
            chk.notes.append("thread-level validation incomplete on one shard (%s); black-box verdicts unaffected" % (r["error"] or r["stuck"]))
            continue
        for d in r["diags"]:
            w = d.get("what", {})
            if d.get("prop") == "DRIFT":
                drift[w.get("kind")] = drift.get(w.get("kind"), 0) + 1
            elif d.get("prop") == pid:
                chk.violation("|".join([pid, "threads", str(w.get("kind"))]), "thread level: %s: %s" % (w.get("kind"), json.dumps({a: b for a, b in w.items() if a != "kind"}, sort_keys=True)),
                              {"module": "UciThreadsTrace", "trace": r["trace"], "diag": d})
    chk.coverage["thread_level"] = {"sessions": n, "searches": sum(r["searches"] for r in rs), "timer_stops": sum(r["timer_stops"] for r in rs),
                                    "events_validated": sum(r["accepted"] or 0 for r in res), "model_drift": drift}
    chk.coverage["traces_validated_against_impl"] = chk.coverage.get("traces_validated_against_impl", 0) + len(paths)
    if drift:
        print("MODEL-DRIFT property=%s the thread model (UciThreads.tla) no longer describes the code: %s" % (pid, json.dumps(drift)))
