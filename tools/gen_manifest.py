#!/usr/bin/env python3
"""Writes /verif/MANIFEST.json from the table below (one source of truth for the interface)."""
import json
import os
import subprocess

ROOT = os.path.dirname(os.path.dirname(os.path.abspath(__file__)))

MC = "model_checking"
EX = "exploration"

TRUST = ("TLC 1.8 and its Json/IOUtils modules; spec/Chess.tla as rules oracle (self-tested against published perft numbers in setup and "
         "against all book games); the projection of implementation values through public accessors in harness/src/lib.rs")

CHECKS = {
    "C01": dict(level=MC, design="3 C01", technique="TLA+ rules specification (Chess.tla) model-checked by TLC; TLC-enumerated position families replayed into the real move generator; recorded play and perft walks validated by TLC trace checking (ChessTrace.tla)",
                text="Chess.tla states the rules; TLC explores it exhaustively to depth 2-3 with domain-closure/attack-redundancy/mirror invariants (design level), enumerates complete parametrised families (3/4-man endgames, en passant with pins, castling under attack, promotions, pins) whose expected move sets are replayed into MoveGenerator (spec->impl), and validates every event of recorded random/corpus play, of the implementation's perft walk (every inner node: children = Legal, counts add up) and of the `weechess perft` command's output (per-move lines in Peg notation, successor FENs, totals) against Legal/Apply (impl->spec). Universal over positions is approximated by exhaustive families + long random walks, which is what a move generator's case analysis needs.",
                note=TRUST),
    "C02": dict(level=MC, design="3 C02", technique="TLA+ Apply/Resolve operators; TLC trace validation of recorded move sequences and of every coordinate triple through the resolver; family replay of every successor",
                text="Apply and Resolve are specified in Chess.tla; transition properties (rights only shrink, clocks, side alternation) are model-checked; every recorded move's successor, every successor in the enumerated families and, for sampled positions, all 20 480 coordinate triples through State::by_performing_moves are compared with the specification by TLC.",
                note=TRUST),
    "C05": dict(level=EX, design="3 C05", technique="Chess.tla Status as oracle: TLC-enumerated endgame families (all mates/stalemates) replayed into the evaluator; evaluation events of recorded play validated by TLC (ChessTrace!TEval, TEvalConsts)",
                text="Status (mate/stalemate/open) comes from the specification; the evaluator is run on every position of the enumerated families and on play positions from both perspectives at seven plies; the mate-score table is checked by TLC for threshold and antitonicity. The heuristic value itself is not specified.",
                note=TRUST + "; material imbalance >= 90 pawn units is outside the property's domain"),
    "C10": dict(level=MC, design="3 C10", technique="Chess.tla AttackSet/InCheck as oracle; AttackCache.tla (queries, clones, derived objects in every order; stale-cache variant as guard) model-checked; TLC trace validation of query/clone sequences on the live derived object and on fresh copies (ChessTrace!TAttackOps) and of the check flag along play and families",
                text="Attack sets and check are pure functions in the specification; the query-order/clone history is exercised by seeded op sequences on one object and its clones, each answer compared by TLC; check flags are compared on every play and family position.",
                note=TRUST),
    "C13": dict(level=EX, design="3 C13", technique="Chess.tla Mirror (with involution/commutation invariants model-checked) + TLC validation of evaluation quadruples recorded from the real evaluator; enumerated families replayed with the mirrored position supplied by the specification",
                text="The specification supplies the mirror transformation and verifies the harness's mirroring; the relations score(p,W)=-score(p,B) and score(Mirror p, other)=score(p, c) are judged by TLC on every recorded quadruple. Numeric heuristics are otherwise unspecified (said in DESIGN.md 6).",
                note=TRUST),
}

CHECKS.update({
    "C08": dict(level=EX, design="3 C08", technique="Chess.tla PosKey/SameForHash as the identity oracle: TLC judges hash pairs recorded from play and transposition probes (ChessTrace!THashPair); TLC-generated single-component variants with required relation replayed into ZobristHasher",
                text="The specification defines which positions must and must not share a hash; candidate pairs among all met positions (complete for both clauses relative to the met set) are judged by TLC, and TLC generates the variants (castling right, en-passant availability, side, clocks, placement) that the real hasher must separate or identify, under three seeds.",
                note=TRUST + "; 64-bit chance collisions are treated as violations (probability < 1e-7 per run)"),
    "C11": dict(level=EX, design="3 C11", technique="ChessText!ToFen (independent TLA+ FEN writer): TLC validates write/read/re-write round trips recorded along play and generates canonical FENs (all right sets, both en-passant ranks, extreme counters) replayed through the real reader and writer",
                text="Both directions of the round trip are decided against an independent writer in the specification; the generated set is exhaustive over right sets x en-passant targets x counter pairs on five boards.",
                note=TRUST),
    "C12": dict(level=EX, design="3 C12", technique="ChessText!SanSpellings/Lan/Negatives (independent TLA+ SAN writer) generated by TLC for play positions and an enumerated ambiguity family, replayed through the real SAN reader, move filter and LAN writer",
                text="Every admissible spelling of every legal move must select exactly that move, negatives nothing; LAN text must equal the specification's and select the same move again. All spellings of all moves of the sampled/enumerated positions are tried.",
                note=TRUST),
})

CHECKS.update({
    "C09": dict(level=EX, design="3 C09", technique="Chess.tla ray geometry as oracle; exhaustive dump of every ray-square subset for all 64 squares validated by TLC (MagicTrace.tla), which also proves the enumeration complete",
                text="All 1 119 744 rook/bishop ray-subset occupancies (edge squares included), random full-board occupancies for rook/bishop/queen through both entry points, and the fixed knight/king/pawn patterns are compared by TLC with the ray walk; MagicTrace checks the enumeration itself (ray squares, distinct blocks, block count), so exhaustiveness is established by the specification, in both tiers.",
                note=TRUST + "; pure function: the specification is an oracle here, exhaustiveness comes from enumeration, not state exploration"),
    "C20": dict(level=EX, design="3 C20", technique="MoveValue.tla constructor algebra (model-checked read-back on a reduced domain) + TLC trace validation of the implementation's entire constructor domain (1 482 756 values)",
                text="Every value of the constructor domain is built, read back through the nine accessors, compared for equality/inequality, serialised and restored; TLC compares each with the abstract constructor and checks raw distinctness per event. Exhaustive in both tiers.",
                note=TRUST + "; the bit layout is deliberately not specified"),
})

CHECKS.update({
    "C15": dict(level=MC, design="3 C15", technique="TT.tla (concurrent bounded-map model with locks, two-step insert, non-snapshot entries()) model-checked over all interleavings; TLC-simulated behaviours executed on the real table; in-lock hook events linearised by version counter and validated by TTTrace.tla (subset construction over displacement victims, 64-bit keys); hook-free per-thread call logs judged for read-your-writes (TTTrace!TOwn)",
                text="All interleavings of 2-3 threads x 3 operations on a small table are explored for Faithful/CountOk/Bounded/Routing/Fresh/Retained, with a broken-lookup configuration as vacuity guard; specification behaviours (3 threads x 60 ops, 11 keys sharing one 8-slot bucket) run single- and multi-threaded on the real table, and 2..32 real threads hammer real tables; every recorded find/insert/entries is explained by the model or reported.",
                note=TRUST + "; hook events are emitted inside insert/find/entries while the sub-table lock is held"),
})

SEARCH_NOTE = TRUST + "; the hooked synchronous entry point runs the same analyze_iterative as the public API; K+R v K / K+Q v K tablebases are accepted only after spec/TbCheck.tla holds at every index slot"
CHECKS.update({
    "C03": dict(level=MC, design="3 C03", technique="Search.tla (lazy-SMP negamax over a shared table, line rebuilt from the table) model-checked over all interleavings and all prior tables on abstract games, with a colliding-key configuration as counterexample guard; reports of real searches (1-32 workers, seeded schedules, reused memories built from specification-generated position variants) validated by TLC (SearchTrace.tla) with Legal/Apply; per-worker white-box event streams validated against the algorithm (SearchWB.tla: stored moves legal, keys functional)",
                text="LegalLine/ReportBeforeEnd/NoPanic hold in the model for every interleaving of 2 workers and every table an earlier search could leave when keys respect PosKey, and fail (D1 shape) when two nodes share a key; every line reported by ~2 000 (quick) real searches, including sessions that reuse one memory across variants differing only in castling/en-passant state, is replayed move by move against the rules.",
                note=SEARCH_NOTE),
    "C04": dict(level=MC, design="3 C04", technique="Search.tla control layer (flag, poll period K, per-iteration counters, uninterruptible first iteration, Stop at any instant) model-checked incl. liveness StopObeyed/Termination, with the pinned loop and pinned assert as counterexample guards; real searches cancelled at exact node indices (hook), terminal roots, tiny trees, public threaded API with Stop/drop - validated by SearchTrace.tla",
                text="Every Stop instant is enumerated on the model (bounded response, stop obeyed, report before end, no panic, terminal root quiet); on the code the flag is set at every node index of small searches for 1/2/4 workers, mated/stalemated roots from the checked tablebases are searched, tiny trees without depth limit must end through Stop, capture-heavy positions are stopped inside quiescence, and the public API is stopped at sampled instants with the receiver kept or dropped; the returned artifact seeds a following search.",
                note=SEARCH_NOTE + "; hang-detector limit 5 s after Stop (the code needs milliseconds); a harness without progress is killed and the dangling search judged as timeout"),
    "C06": dict(level=MC, design="3 C06", technique="Tablebase certificates: untrusted retrograde tables for K+R v K and K+Q v K checked entry by entry by TLC against Chess.tla (TbCheck.tla); Search.tla MateSound/MateFound model-checked under all interleavings of 3 workers on games with transpositions (1.2 M states); reports of real searches judged by SearchTrace.tla with the checked tables; outside the families an untrusted exhaustive solver's strategy trees (forced mates within 5 plies) are checked by CertTrace.tla and the engine's fresh searches at depth n..n+2 judged against them",
                text="Soundness (a mate claim implies a forced mate and the first move keeps it) and completeness (forced mate in n <= 5 plies found at depth n..n+2 from a fresh memory) are decided exactly on the two complete 3-man families, both colours, 1-32 workers with seeded schedules; the completeness half additionally on every corpus/tactical/random position for which a TLC-checked certificate of a mate within 5 plies exists. Soundness outside the families is not decided (DESIGN.md 9.5/9.7); a bounded-table configuration of the model documents the design-level observation D7.",
                note=SEARCH_NOTE),
    "C17": dict(level=MC, design="3 C17", technique="Search.tla HistoryHit / RepetitionAvoided model-checked on a game with two mating moves; real searches of tablebase positions with two optimal mating moves and the successor of one recorded (hook, or searched first on the same memory) judged by SearchTrace.tla; worker streams validated by SearchWB.tla (every history hit is a recorded non-root position and vice versa)",
                text="The model shows the recorded successor is never chosen while mate is still reported; on the code both ways of recording are used (cold table through the hook, warm table as in a game), depth n..n+2, 1-8 workers; a root all of whose moves re-enter recorded positions must be reported with evaluation 0.",
                note=SEARCH_NOTE),
    "C19": dict(level=EX, design="3 C19", technique="Search.tla determinism configuration (one worker, fixed order, no Stop) model-checked; triples of real runs (two in one process, one in another; hooked and public entry points) compared event by event by TLC (SearchTrace!TRepro)",
                text="The specification's role is thin here (equality of complete event sequences incl. node counts); the substance is the enumeration of positions x seeds x depths.",
                note=SEARCH_NOTE),
})

UCI_NOTE = TRUST + "; stdout is one ordered stream and every cancelling handler joins the writer thread before returning, so an isready barrier after each command orders the transcript; the i-th SearchStart hook line belongs to the i-th go not answered from the book"
CHECKS.update({
    "C07": dict(level=MC, design="3 C07", technique="Uci.tla session model (commands + internal SearchFinish anywhere) model-checked; its simulated command sequences instantiated and fed to the real `weechess uci` process; transcripts validated by UciTrace.tla (queue of owed bestmoves, barriers, isready-while-searching ordering clause, position computed by Chess.tla, LAN by ChessText.tla)",
                text="All command histories up to length 6 are explored on the model (no unsolicited bestmove, answered at barrier, at most one due); the real process is driven by model-generated sequences over book/open/terminal/colliding/tiny-tree positions with legal move lists in three pacing modes, and every transcript must be a behaviour: uciok/readyok, `.state` FEN equal to the specification's position, exactly one legal LAN bestmove per go on an open position before the next cancelling command returns, exit status 0.",
                note=UCI_NOTE),
    "C14": dict(level=EX, design="3 C14", technique="TextGen.tla mutation model (single/field/double mutations of canonical texts, as code points) generated by TLC and replayed through the FEN and SAN readers in debug and release builds, outcomes judged by ChessTrace!TParse; Uci.tla Garbage action: model-generated sessions with garbage lines injected into the real UCI process, judged by UciTrace.tla",
                text="Systematic, documented subset of 'all strings': every single mutation and field mutation of canonical FENs/SAN tokens, sampled double mutations, random strings; two build profiles because overflow checks differ; for the UCI loop every garbage line is followed by the isready barrier and the session must still end with status 0.",
                note=UCI_NOTE + "; totality over all strings cannot be enumerated - the mutation model is the stated approximation"),
    "C18": dict(level=MC, design="3 C18", technique="Uci.tla CleanAfterNewGame model-checked over all histories <= 6 (pinned handler as counterexample guard); real sessions with ucinewgame after every kind of prefix; the SearchStart hook (fresh / history length / table entries of the memory handed to the search) validated by UciTrace.tla",
                text="The model shows that only the specified handler starts the next search from an empty memory; on the real process the first search after every ucinewgame must report a fresh artifact (no history, empty table), whatever was searched, stopped or collected before.",
                note=UCI_NOTE),
})

CHECKS.update({
    "C16": dict(level=MC, design="3 C16", technique="Book.tla builds the expected book from all game files with the specification's own SAN reader (doubling as oracle self-check); BookModel.tla model-checked with a colliding-key configuration as counterexample guard; the expected relation PosKey -> moves and specification-generated history variants are replayed against the real OpeningBook",
                text="Exhaustive over the corpus: every distinct (10-ply prefix, token) pair of all 7 884 games is resolved by the specification and every distinct book position is looked up in the real book (exact set equality and legality); variants reaching a book placement with other castling/en-passant state must only be offered legal moves.",
                note=TRUST + "; an independent ~30-line tokenizer (tools/booktok.py) splits the game files"),
})

# parts added after the first complete version (DESIGN.md 9.5, 9.8); appended to the technique text
ADDED = {
    "C01": "; random play from extreme-material and crowded-line corpora; clocks varied in the families",
    "C03": "; worker streams incl. sampled capture searches node by node (SearchWB.tla); lines printed by `weechess evaluate` (SearchTrace!TCliEval) and `info pv` lines of the UCI process (UciTrace!LanFollow); roots with high halfmove clocks, doomed / single-move / special-shaped roots",
    "C05": "; MINOR family (king and one minor each) and the en-passant family; 194 mined terminal positions of 80 shapes and the extreme-material corpus evaluated the same way",
    "C06": "; CertTrace.tla: strategy certificates of an untrusted solver checked move by move by TLC for the mate corpus (incl. under-promotion and single-evasion roots) and its colour mirrors",
    "C07": "; UciInd.tla: the session invariants proved inductive by Apalache (any number of commands); UciThreads.tla: the session at the grain of its threads, model-checked incl. refinement of Uci.tla and two counterexample guards, bound by UciThreadsTrace.tla to numbered thread events of real sessions; every-legal-move position sessions",
    "C08": "; ownership variants (recoloured, exchanged); two-component variants (rights together with en passant) from bases holding every right and every en-passant file; hashers meet State values in rotating order; SearchWB!OneKeyPerPosition on white-box searches",
    "C10": "; positions with completely occupied slider lines (mined) and extreme material",
    "C12": "; the coordinate text of every legal move of selected positions fed through `position ... moves` of the UCI process and read back (UciTrace.tla)",
    "C13": "; MINOR family, mined terminal positions, extreme-material corpus",
    "C14": "; mutated FEN texts as the --fen argument of `weechess display`",
    "C16": "; lookups repeated with other move counters; book answers of real UCI sessions judged against the relation built by Book.tla (UciTrace.tla with BOOK)",
    "C17": "; mined roots holding a castling right whose recorded successors are reached by right-losing quiet moves; tablebase-free clause (no winning evaluation with a first move into a recorded position)",
    "C18": "; UciInd.tla (Apalache, unbounded); sessions where the first go after ucinewgame is answered from the book",
    "C19": "; public triples with slow first iterations, with an unrelated analysis running in the same process, earlier memories dropped, events read live vs after the search; pairs through `weechess evaluate`; the single-worker premise observed by hook (MODEL-DRIFT)",
    "C20": "; every value compared in both directions with all values differing in exactly one attribute",
}
for _k, _v in ADDED.items():
    CHECKS[_k]["technique"] += _v

NOT_YET = {
}


def main():
    commits = subprocess.run(["git", "-C", "/repo", "log", "--format=%h %s"], capture_output=True, text=True).stdout.splitlines()
    hooks = [c.split()[0] for c in commits if c.split(" ", 1)[1].startswith("verif:")]
    props = [json.loads(l)["id"] for l in open(os.path.join(ROOT, "properties.jsonl"))]
    m = {
        "version": 1,
        "setup_cmd": "cd /verif && ./tools/setup.sh",
        "hooks": {
            "guard": "weechess_verif",
            "enable": "rustc --cfg weechess_verif (set as build.rustflags in /verif/harness/.cargo/config.toml; tools/wvlib.py passes the same flag when it builds the weechess CLI from /repo)",
            "baseline_off_cmd": "cd /repo && cargo test --workspace --no-fail-fast --offline",
            "source_commits": list(reversed(hooks)),
            "add_only": True,
        },
        "engines": [
            {"name": "tlc", "path": "/verif/spec", "serves_properties": props, "kind_free_text": "TLA+ specification suite checked with TLC (model checking, generation for replay, trace validation)"},
            {"name": "wv", "path": "/verif/harness", "serves_properties": props, "kind_free_text": "Rust conformance harness built against /repo's working tree with the hooks enabled: records traces from, and replays TLC-generated cases into, the real code"},
        ],
        "checks": [],
        "not_applicable": [],
        "notes": "All verdicts come from TLC judging the real code's behaviour against the TLA+ suite in /verif/spec; see DESIGN.md. known_findings.json lists recorded findings and fixed defects.",
    }
    for pid in props:
        if pid in CHECKS:
            c = CHECKS[pid]
            m["checks"].append({
                "property_id": pid,
                "quick_cmd": "cd /verif && ./check %s --tier quick" % pid,
                "thorough_cmd": "cd /verif && ./check %s --tier thorough" % pid,
                "evidence_file": "/verif/evidence/%s.json" % pid,
                "replay_cmd_template": "cd /verif && ./check %s --replay {path}" % pid,
                "engine": "tlc",
                "level_claimed": {"category": c["level"], "text": c["text"], "design_ref": c["design"]},
                "level_note": c["note"],
                "technique": c["technique"],
            })
        else:
            m["not_applicable"].append({"property_id": pid, "reason": NOT_YET.get(pid, "check not built yet in this revision of /verif (planned in DESIGN.md section 3); not claimed until it runs clean")})
    with open(os.path.join(ROOT, "MANIFEST.json"), "w") as f:
        json.dump(m, f, indent=1)
    print("MANIFEST.json: %d checks, %d not applicable" % (len(m["checks"]), len(m["not_applicable"])))


if __name__ == "__main__":
    main()
