#!/bin/bash
LOG=${CLOG:-/verif/work/confirm_seeds${ROUND:-3}.log}
for s in "$@"; do
  R=${ROUND:-3}; W=/tmp/seed${R}_$s; O=/tmp/seed${R}_${s}_out
  echo "=== $s" >> $LOG
  cd $W || continue
  git checkout -q -- . ; git clean -fdq -e target
  git apply $O/patch.diff && echo "patch applies" >> $LOG
  cargo test --workspace --no-fail-fast --offline 2>&1 | grep -E "^test result" >> $LOG
  ( timeout 1800 bash $O/demo.sh $W > /tmp/seed${R}_${s}_demo_with.log 2>&1; echo "with: demo.sh exit $?" >> $LOG )
  git checkout -q -- . ; git clean -fdq -e target
  ( timeout 1800 bash $O/demo.sh $W > /tmp/seed${R}_${s}_demo_without.log 2>&1; echo "without: demo.sh exit $?" >> $LOG )
  git checkout -q -- . ; git clean -fdq -e target
done
echo ALLDONE >> $LOG
