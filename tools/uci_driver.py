"""Drives the real `weechess uci` process and records a transcript for UciTrace.tla.

Every command is followed by an `isready` barrier (all cancelling handlers join the writer thread
before they return, so everything the command caused precedes its `readyok`); after `position`
the hidden `.state` command makes the engine print its current position (FEN on stderr)."""
import json
import os
import queue
import subprocess
import threading
import time


EMPTY_POS = {"board": ["."] * 64, "stm": "w", "castle": [], "ep": 0, "half": 0, "full": 1}


def fen_to_pos(fen):
    """This script's own reading of a FEN the engine printed (used only to resynchronise after garbage)."""
    try:
        f = fen.split()
        board = ["."] * 64
        for ri, rank in enumerate(f[0].split("/")):
            r, file = 7 - ri, 0
            for ch in rank:
                if ch.isdigit():
                    file += int(ch)
                else:
                    board[r * 8 + file] = ch
                    file += 1
        ep = 0 if f[3] == "-" else (int(f[3][1]) - 1) * 8 + "abcdefgh".index(f[3][0]) + 1
        return {"board": board, "stm": f[1], "castle": [c for c in f[2] if c != "-"], "ep": ep, "half": int(f[4]), "full": int(f[5])}
    except Exception:
        return EMPTY_POS


class Engine:
    def __init__(self, cli, env=None):
        e = dict(os.environ)
        e["WEECHESS_VERIF_STDERR"] = "1"
        if env:
            e.update(env)
        self.p = subprocess.Popen([cli, "uci"], stdin=subprocess.PIPE, stdout=subprocess.PIPE, stderr=subprocess.PIPE, env=e, bufsize=0)
        self.out = queue.Queue()
        self.err = queue.Queue()
        self.err_all = []
        threading.Thread(target=self._pump, args=(self.p.stdout, self.out), daemon=True).start()
        threading.Thread(target=self._pump, args=(self.p.stderr, self.err), daemon=True).start()

    @staticmethod
    def _pump(stream, q):
        buf = b""
        while True:
            try:
                chunk = stream.read(4096)
            except Exception:
                break
            if not chunk:
                break
            buf += chunk
            while b"\n" in buf:
                line, buf = buf.split(b"\n", 1)
                q.put(line.decode("utf-8", "replace"))
        q.put(None)

    def send(self, line):
        try:
            self.p.stdin.write((line + "\n").encode("utf-8", "surrogateescape") if isinstance(line, str) else line + b"\n")
            self.p.stdin.flush()
            return True
        except (BrokenPipeError, OSError):
            return False

    def read_until(self, pred, timeout):
        """Returns (lines, matched)."""
        lines = []
        end = time.time() + timeout
        while True:
            left = end - time.time()
            if left <= 0:
                return lines, False
            try:
                l = self.out.get(timeout=left)
            except queue.Empty:
                return lines, False
            if l is None:
                return lines, False
            lines.append(l)
            if pred(l):
                return lines, True

    def read_err_fen(self, timeout):
        end = time.time() + timeout
        while time.time() < end:
            try:
                l = self.err.get(timeout=max(0.01, end - time.time()))
            except queue.Empty:
                return None
            if l is None:
                return None
            self.err_all.append(l)
            s = l.strip()
            if s.count("/") == 7 and len(s.split()) >= 4:
                return s
        return None

    def drain_err(self):
        while True:
            try:
                l = self.err.get_nowait()
            except queue.Empty:
                break
            if l is not None:
                self.err_all.append(l)


def classify(line):
    t = line.split()
    if not t:
        return {"ev": "Out", "kind": "blank"}
    if t[0] == "bestmove":
        return {"ev": "Out", "kind": "bestmove", "mv": list(t[1]) if len(t) > 1 else []}
    if t[0] in ("readyok", "uciok"):
        return {"ev": "Out", "kind": t[0]}
    if t[0] == "id":
        return {"ev": "Out", "kind": "id", "what": t[1] if len(t) > 1 else ""}
    if line.startswith("info string book move"):
        return {"ev": "Out", "kind": "book"}
    if t[0] == "info" and len(t) >= 2 and t[1] == "pv":
        return {"ev": "Out", "kind": "pv", "pv": [list(x) for x in t[2:]]}
    if t[0] == "info":
        return {"ev": "Out", "kind": "info"}
    return {"ev": "Out", "kind": "other", "text": line[:80]}


def run_session(cli, cmds, pacing="immediate", hang_s=60.0):
    """cmds: list of dicts {"line": text (str or bytes), "kind": ..., plus structured fields for the trace}.
    Returns the list of trace events."""
    ev = []
    eng = Engine(cli)
    alive = True
    t_start = time.time()
    for c in cmds:
        if not alive:
            break
        meta = {k: v for k, v in c.items() if k != "line"}
        ev.append(dict(meta, ev="In"))
        if c["kind"] == "wait":
            # the model lets the search finish by itself here: wait for its bestmove
            lines, ok = eng.read_until(lambda l: l.startswith("bestmove"), c.get("timeout", 60.0))
            ev += [classify(l) for l in lines]
            ev.append({"ev": "WaitEnd", "got": ok})
            continue
        if c["kind"] == "eof":
            try:
                eng.p.stdin.close()
            except Exception:
                pass
            break
        if not eng.send(c["line"]):
            alive = False
            break
        if c["kind"] == "quit":
            break
        if pacing == "delay":
            time.sleep(0.03 + 0.07 * ((len(ev) * 37) % 10) / 10.0)
        if c["kind"] == "position" or c.get("state"):
            eng.send(".state")
            fen = eng.read_err_fen(hang_s)
            ev.append({"ev": "State", "fen": list(fen) if fen else [], "seen": fen is not None, "pos": fen_to_pos(fen) if fen else EMPTY_POS})
        if c["kind"] != "isready":
            eng.send("isready")
        lines, ok = eng.read_until(lambda l: l.strip() == "readyok", hang_s)
        ev += [classify(l) for l in lines]
        if not ok:
            ev.append({"ev": "Hang", "after": meta.get("kind", "?"), "waited_s": hang_s})
            alive = False
            break
    # collect the rest: exit status and trailing output
    try:
        status = eng.p.wait(timeout=hang_s)
    except subprocess.TimeoutExpired:
        eng.p.kill()
        status = -999
    time.sleep(0.05)
    while True:
        try:
            l = eng.out.get_nowait()
        except queue.Empty:
            break
        if l is not None:
            ev.append(classify(l))
    eng.drain_err()
    starts = []
    for l in eng.err_all:
        if l.startswith("verif {"):
            try:
                starts.append(json.loads(l[len("verif "):]))
            except Exception:
                pass
    # the i-th SearchStart belongs to the i-th go that spawned a search (no book answer before its barrier)
    out = []
    k = 0
    i = 0
    while i < len(ev):
        e = ev[i]
        out.append(e)
        if e.get("ev") == "In" and e.get("kind") == "go":
            j = i + 1
            book = False
            while j < len(ev) and not (ev[j].get("ev") == "Out" and ev[j].get("kind") == "readyok") and ev[j].get("ev") != "In":
                if ev[j].get("kind") == "book":
                    book = True
                j += 1
            if not book:
                if k < len(starts):
                    s = starts[k]
                    out.append({"ev": "SearchStart", "fresh": s["fresh"], "history_len": s["history_len"], "table_entries": s["table_entries"]})
                else:
                    out.append({"ev": "SearchStart", "fresh": True, "history_len": -1, "table_entries": -1})
                k += 1
        i += 1
    stderr_tail = [l for l in eng.err_all if "panicked" in l or "RUST_BACKTRACE" in l][:3]
    out.append({"ev": "Exit", "status": status, "stderr": [x[:200] for x in stderr_tail], "wall_s": round(time.time() - t_start, 2)})
    return out
