#!/bin/sh
# Runs every check's quick (or $1) tier on /repo's current tree, sequentially; prints one line per check.
cd "$(dirname "$0")/.."
TIER=${1:-quick}
for p in C01 C02 C03 C04 C05 C06 C07 C08 C09 C10 C11 C12 C13 C14 C15 C16 C17 C18 C19 C20; do
  s=$(date +%s)
  ./check $p --tier $TIER > work/all_$p.log 2>&1; rc=$?
  e=$(date +%s)
  echo "$p rc=$rc $((e-s))s $(grep -c '^VIOLATION' work/all_$p.log) violations; $(grep -E '^(TOOL-ERROR|MODEL-DRIFT|KNOWN)' work/all_$p.log | head -2 | tr '\n' ' ')"
done
