#!/usr/bin/env python3
"""Independent tokenizer for the PGN-like files in /repo/book: movetext blocks -> arrays of SAN tokens
(as arrays of one-character strings, because TLC cannot index into strings)."""
import json, os, sys

def games(book_dir):
    out = []
    for fn in sorted(os.listdir(book_dir)):
        p = os.path.join(book_dir, fn)
        if not os.path.isfile(p):
            continue
        text = open(p, encoding="utf-8", errors="replace").read().replace("\r\n", "\n")
        for block in text.strip().split("\n\n"):
            if not block.startswith("1."):
                continue
            toks = []
            for t in block.split():
                if t in ("1/2-1/2", "1-0", "0-1", "*") or t.endswith("."):
                    continue
                if "." in t:
                    t = t[t.index(".") + 1:]
                if t:
                    toks.append(t)
            out.append({"file": fn, "toks": toks})
    return out

def trie_ops(gs, depth):
    """Depth-first linearisation of the prefix tree of the games' first `depth` tokens."""
    root = {}
    for g in gs:
        node = root
        for t in g["toks"][:depth]:
            node = node.setdefault(t, {"_n": 0, "_c": {}})
            node["_n"] += 1
            node = node["_c"]
    ops = []

    def walk(children):
        for t in sorted(children):
            ops.append({"op": "push", "tok": list(t), "n": children[t]["_n"]})
            walk(children[t]["_c"])
            ops.append({"op": "pop", "tok": [], "n": 0})
    walk(root)
    return ops


if __name__ == "__main__":
    gs = games(sys.argv[1])
    depth = int(sys.argv[3]) if len(sys.argv) > 3 else 0
    with open(sys.argv[2], "w") as f:
        for i, g in enumerate(gs):
            toks = g["toks"][:depth] if depth else g["toks"]
            f.write(json.dumps({"g": i + 1, "toks": [list(t) for t in toks]}) + "\n")
    print(len(gs))
