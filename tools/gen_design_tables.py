#!/usr/bin/env python3
"""Regenerates the result tables of DESIGN.md section 9.5 (between the BEGIN/END markers) from
corpus/mutants/results.json, corpus/regress/results.json and seeded/results.json."""
import json, os
ROOT = os.path.dirname(os.path.dirname(os.path.abspath(__file__)))

def load(p):
    p = os.path.join(ROOT, p)
    return json.load(open(p)) if os.path.exists(p) else {}

def cell(v):
    if v is None:
        return "not run"
    if v["exit"] == 1:
        return "caught (%d+ lines): %s" % (v["violation_lines"], v["first"].split("#", 1)[-1].strip()[:110].replace("|", "/"))
    if v["exit"] == 0:
        return "NOT caught" + (" (model drift reported)" if v.get("model_drift") else "")
    return "tool error"

out = []
out.append("| Id | Property | Change | Result of `./check` (quick) |")
out.append("|----|----------|--------|-----------------------------|")
cat = {m["id"]: m for m in json.load(open(os.path.join(ROOT, "corpus/mutants/catalogue.json")))}
res = load("corpus/mutants/results.json")
for k in sorted(res, key=lambda x: (x.split(":")[0])):
    mid, prop = k.split(":")
    out.append("| %s | %s | %s | %s |" % (mid, prop, cat.get(mid, {}).get("what", res[k].get("what", "")), cell(res[k])))
reg = load("corpus/regress/results.json")
for k in sorted(reg):
    out.append("| R-%s | %s | %s | %s |" % (k.split(":")[0], k.split(":")[1], reg[k].get("what", "fix reverted"), cell(reg[k])))
out.append("")
out.append("| Seeded change | Breaks | Needs to manifest | Result of `./check` (quick) |")
out.append("|---------------|--------|-------------------|-----------------------------|")
sres = load("seeded/results.json")
for sid in sorted(os.listdir(os.path.join(ROOT, "seeded"))):
    mp = os.path.join(ROOT, "seeded", sid, "meta.json")
    if not os.path.exists(mp):
        continue
    m = json.load(open(mp))
    for prop in [m["property"]] + m.get("also", []):
        v = sres.get("%s:%s" % (sid, prop))
        out.append("| seeded/%s (%s) | %s | %s | %s |" % (sid, prop, m["breaks"][:160], m["needs_to_manifest"][:140], cell(v)))
text = "\n".join(out)
p = os.path.join(ROOT, "DESIGN.md")
d = open(p).read()
b, e = "<!-- BEGIN RESULT TABLES -->", "<!-- END RESULT TABLES -->"
i, j = d.index(b) + len(b), d.index(e)
open(p, "w").write(d[:i] + "\n" + text + "\n" + d[j:])
print("tables written:", len(out), "lines")
