#!/usr/bin/env python3
"""R-mutants: re-introduces each repaired defect (reverse patch of its fix commit), runs the property's quick check, restores."""
import json, os, subprocess, sys
ROOT = os.path.dirname(os.path.dirname(os.path.abspath(__file__)))
R = os.path.join(ROOT, "corpus", "regress")
PLAN = [("15dc7d1", ["C05", "C06"], "D4 evaluator shortcut in check"), ("100407f", ["C08", "C03", "C16"], "D1 hash ignores castling/en passant"),
        ("f4076f6", ["C04"], "D2 assert on terminal root"), ("3a49689", ["C04"], "D3 stop never obeyed on small trees"),
        ("af38b5f", ["C04"], "D8 stop not obeyed in quiescence"), ("0427708", ["C18"], "D6 ucinewgame keeps collected artifact"),
        ("4f0f567", ["C14"], "D5 FEN cursor overflow"), ("fb46976", ["C14"], "D5 UCI move token slicing")]
resp = os.path.join(R, "results.json")
results = json.load(open(resp)) if os.path.exists(resp) else {}
for commit, props, what in PLAN:
    if len(sys.argv) > 1 and commit not in sys.argv[1:]:
        continue
    patch = os.path.join(R, commit + ".diff")
    r = subprocess.run(["git", "-C", "/repo", "apply", "-R", patch], capture_output=True, text=True)
    if r.returncode != 0:
        print(commit, "reverse patch does not apply", r.stderr[:200]); continue
    try:
        for prop in props:
            r = subprocess.run([os.path.join(ROOT, "check"), prop], capture_output=True, text=True, timeout=5400)
            v = [l for l in r.stdout.splitlines() if l.startswith("VIOLATION")]
            results["%s:%s" % (commit, prop)] = {"what": what + " (fix reverted)", "exit": r.returncode, "violation_lines": len(v), "first": (v or [""])[0][:400]}
            print(commit, prop, "exit", r.returncode, len(v), (v or [""])[0][:160], flush=True)
    finally:
        subprocess.run(["git", "-C", "/repo", "checkout", "--", "."])
        json.dump(results, open(resp, "w"), indent=1)
