#!/usr/bin/env python3
"""Catalogue of small source changes (design-phase sensitivity targets) -> patch files in corpus/mutants/.
  mutants.py gen            regenerate the patch files against /repo HEAD (uses a scratch worktree)
  mutants.py run [ids...]   apply each to /repo, run the expected property's quick check, restore, record
Only the ones that compile and pass the repository's own 43 tests are interesting; the design phase
established which (kept in the 'suite' field)."""
import importlib.util, json, os, subprocess, sys

ROOT = os.path.dirname(os.path.dirname(os.path.abspath(__file__)))
OUT = os.path.join(ROOT, "corpus", "mutants")


def load(path):
    src = open(path).read()
    src = src[:src.index("only=sys.argv")]
    ns = {}
    exec(src, ns)
    return ns["M"]


def catalogue():
    cat = json.load(open(os.path.join(OUT, "catalogue.json")))
    return cat


def gen():
    M = []
    for f in ("mutants.py", "mutants2.py", "mutants3.py"):
        p = os.path.join("/root/scratch/mut", f)
        if os.path.exists(p):
            M += load(p)
    wt = "/tmp/wv_mut_wt"
    subprocess.run(["git", "-C", "/repo", "worktree", "remove", "--force", wt], capture_output=True)
    subprocess.run(["git", "-C", "/repo", "worktree", "add", "--detach", wt, "HEAD"], check=True, capture_output=True)
    cat = []
    for (mid, prop, f, old, new, desc) in M:
        p = os.path.join(wt, f)
        s = open(p).read()
        if s.count(old) != 1:
            print(mid, "does not apply to the current tree (count=%d)" % s.count(old))
            continue
        open(p, "w").write(s.replace(old, new))
        d = subprocess.run(["git", "-C", wt, "diff"], capture_output=True, text=True).stdout
        open(os.path.join(OUT, mid + ".diff"), "w").write(d)
        subprocess.run(["git", "-C", wt, "checkout", "-q", "--", "."])
        cat.append({"id": mid, "property": prop, "file": f, "what": desc})
    subprocess.run(["git", "-C", "/repo", "worktree", "remove", "--force", wt], capture_output=True)
    json.dump(cat, open(os.path.join(OUT, "catalogue.json"), "w"), indent=1)
    print(len(cat), "patches")


def run(ids):
    cat = catalogue()
    resp = os.path.join(OUT, "results.json")
    results = json.load(open(resp)) if os.path.exists(resp) else {}
    for m in cat:
        if ids and m["id"] not in ids:
            continue
        if m.get("invalid"):
            print(m["id"], "skipped:", m["invalid"][:100])
            continue
        patch = os.path.join(OUT, m["id"] + ".diff")
        r = subprocess.run(["git", "-C", "/repo", "apply", patch], capture_output=True, text=True)
        if r.returncode != 0:
            print(m["id"], "patch does not apply:", r.stderr[:200])
            continue
        try:
            for prop in m["property"].split("/"):
                r = subprocess.run([os.path.join(ROOT, "check"), prop], capture_output=True, text=True, timeout=3600)
                first = [l for l in r.stdout.splitlines() if l.startswith("VIOLATION")][:1]
                tool = [l for l in r.stdout.splitlines() if l.startswith("TOOL-ERROR")][:1]
                results[m["id"] + ":" + prop] = {"what": m["what"], "exit": r.returncode, "violation_lines": sum(1 for l in r.stdout.splitlines() if l.startswith("VIOLATION")),
                                                  "first": (first or tool or [""])[0][:300]}
                print(m["id"], prop, "exit", r.returncode, (first or tool or [""])[0][:200], flush=True)
        finally:
            subprocess.run(["git", "-C", "/repo", "checkout", "--", "."])
            json.dump(results, open(resp, "w"), indent=1)


if __name__ == "__main__":
    if sys.argv[1] == "gen":
        gen()
    else:
        run(sys.argv[2:])
