#!/bin/sh
# usage: try_patch.sh [-R] <patch> <Cxx>...   applies the patch to /repo's working tree, runs the checks, restores /repo.
REV=""
if [ "$1" = "-R" ]; then REV="-R"; shift; fi
P="$(readlink -f "$1")"; shift
cd /repo && git apply $REV "$P" || { echo "patch does not apply"; exit 3; }
cd /verif
for c in "$@"; do
  ./check "$c" > work/try_$c.log 2>&1; rc=$?
  echo "== $c rc=$rc: $(grep -c '^VIOLATION' work/try_$c.log) violation lines; $(grep -m1 '^VIOLATION' work/try_$c.log | cut -c1-260)"
  grep -E "^TOOL-ERROR|^KNOWN" work/try_$c.log | head -3
done
cd /repo && git checkout -- . && git status --short | head -3
