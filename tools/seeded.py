#!/usr/bin/env python3
"""seeded.py run [ids...]: applies each /verif/seeded/<id>/patch.diff to /repo's working tree, runs the quick check of the
property it breaks (plus any 'also' checks of its meta.json), restores /repo, and records what was reported in
seeded/results.json. Nothing is ever committed to /repo."""
import json, os, subprocess, sys
ROOT = os.path.dirname(os.path.dirname(os.path.abspath(__file__)))
S = os.path.join(ROOT, "seeded")
REPO = os.environ.get("WV_REPO", "/repo")

def run(ids):
    resp = os.path.join(S, "results.json")
    results = json.load(open(resp)) if os.path.exists(resp) else {}
    for sid in sorted(os.listdir(S)):
        d = os.path.join(S, sid)
        if not os.path.isdir(d) or (ids and sid not in ids):
            continue
        meta = json.load(open(os.path.join(d, "meta.json")))
        # a patch written against an older /repo HEAD may have been rebased over later hook commits
        pf = os.path.join(d, "patch.rebased.diff") if os.path.exists(os.path.join(d, "patch.rebased.diff")) else os.path.join(d, "patch.diff")
        r = subprocess.run(["git", "-C", REPO, "apply", pf], capture_output=True, text=True)
        if r.returncode != 0:
            print(sid, "patch does not apply", r.stderr[:200]); continue
        try:
            for prop in [meta["property"]] + meta.get("also", []):
                r = subprocess.run([os.path.join(ROOT, "check"), prop], capture_output=True, text=True, timeout=5400)
                v = [l for l in r.stdout.splitlines() if l.startswith("VIOLATION")]
                drift = [l for l in r.stdout.splitlines() if l.startswith("MODEL-DRIFT")]
                results["%s:%s" % (sid, prop)] = {"exit": r.returncode, "violation_lines": len(v), "first": (v or [""])[0][:400], "model_drift": drift[:1]}
                print(sid, prop, "exit", r.returncode, len(v), (v or [""])[0][:160], flush=True)
        finally:
            subprocess.run(["git", "-C", REPO, "checkout", "--", "."])
            json.dump(results, open(resp, "w"), indent=1)

if __name__ == "__main__":
    run(sys.argv[2:])
