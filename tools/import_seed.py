#!/usr/bin/env python3
"""import_seed.py <Cxx> <round> <breaks> <needs>: copies /tmp/seed<round>_<Cxx>_out into seeded/<Cxx>_r<round>/ with a meta.json."""
import json, os, shutil, sys
pid, rnd, breaks, needs = sys.argv[1], int(sys.argv[2]), sys.argv[3], sys.argv[4]
src = "/tmp/seed%d_%s_out" % (rnd, pid)
dst = os.path.join(os.path.dirname(os.path.dirname(os.path.abspath(__file__))), "seeded", "%s_r%d" % (pid, rnd))
os.makedirs(dst, exist_ok=True)
for f in os.listdir(src):
    if os.path.isfile(os.path.join(src, f)) and os.path.getsize(os.path.join(src, f)) < 400000 and not f.endswith(".log"):
        shutil.copy(os.path.join(src, f), os.path.join(dst, f))
json.dump({"property": pid, "round": rnd,
           "source": "independent sub-agent given only the property text, a scratch worktree and one-line descriptions of the earlier faults to avoid",
           "breaks": breaks, "needs_to_manifest": needs,
           "baseline_suite": "compiles; cargo test --workspace --no-fail-fast --offline: 43 passed (confirmed by me with tools/confirm_seeds.sh, log work/confirm_seeds%s.log)" % (7 if rnd == 3 else rnd),
           "demonstration": "see notes.md; demo.sh confirmed by me in both directions (same log)",
           "what_i_ran": "tools/seeded.py run %s_r%d" % (pid, rnd)}, open(os.path.join(dst, "meta.json"), "w"), indent=1)
print(dst, sorted(os.listdir(dst)))
