#!/usr/bin/env python3
"""Oracle self-test: Chess.tla must reproduce published perft numbers before it judges any code."""
import os, sys
sys.path.insert(0, os.path.dirname(os.path.abspath(__file__)))
from wvlib import tlc, tool_error

r = tlc("MCChess", cfg="MCChess", workers=8, keep_stdout=True)
# start position 1+20+400, kiwipete 1+48+2039, no transposition merges at depth <= 2 except none
if r["rc"] != 0 or r["states"] != 2509:
    sys.stderr.write(r.get("stdout", ""))
    tool_error("Chess.tla does not reproduce perft(2) of the start position and kiwipete: %s states" % r["states"])
print("selftest ok: perft start 20/400, kiwipete 48/2039 reproduced by Chess.tla; invariants hold on %d states" % r["distinct"])
