"""C16: opening book against Book.tla."""
import json
import random
import os
import sys

from wvlib import *  # noqa
import booktok


def trie_shards(ops, nshards):
    """Splits the linearised trie into self-contained shards at depth-2 subtrees."""
    subtrees = []          # (path tokens, ops of the subtree incl. its own push/pop)
    depth = 0
    path = []
    cur = None
    for o in ops:
        if o["op"] == "push":
            depth += 1
            if depth <= 2:
                path = path[:depth - 1] + [o]
            if depth == 2:
                cur = {"pre": [path[0]], "ops": []}
            if depth >= 2:
                cur["ops"].append(o)
            elif depth == 1:
                pass
        else:
            if depth >= 2:
                cur["ops"].append(o)
            if depth == 2:
                subtrees.append(cur)
                cur = None
            depth -= 1
    bins = [[0, []] for _ in range(nshards)]
    for st in sorted(subtrees, key=lambda s: -len(s["ops"])):
        b = min(bins, key=lambda b: b[0])
        b[0] += len(st["ops"])
        b[1].append(st)
    out = []
    for _, sts in bins:
        if not sts:
            continue
        seq = []
        for st in sts:
            seq += st["pre"] + st["ops"] + [{"op": "pop", "tok": [], "n": 0}]
        out.append(seq)
    return out


def uci_part(chk, pid, wd, gs, bpath, quick, seed, variants=()):
    """Follows the engine's own book answers from the start position: position startpos moves m1..mk; go - every answer is
    judged by UciTrace.tla against the book the specification built (membership) and the rules (legality)."""
    from concurrent.futures import ThreadPoolExecutor
    import uci_driver
    import ucichecks
    cli = build_cli()

    def lan_triple(m):
        sq = lambda t: (int(t[1]) - 1) * 8 + "abcdefgh".index(t[0]) + 1
        return [sq(m[0:2]), sq(m[2:4]), m[4].upper() if len(m) > 4 else "."]

    def one(k):
        ev = [{"ev": "Session", "id": k, "wellformed": True, "pacing": "book-follow"}]
        eng = uci_driver.Engine(cli)
        moves = []
        for ply in range(12):
            line = "position startpos" + (" moves " + " ".join(moves) if moves else "")
            ev.append({"ev": "In", "kind": "position", "base": "startpos", "fen": [], "pos": uci_driver.EMPTY_POS, "moves": [lan_triple(m) for m in moves], "valid": True})
            eng.send(line)
            eng.send(".state")
            fen = eng.read_err_fen(25.0)
            ev.append({"ev": "State", "fen": list(fen) if fen else [], "seen": fen is not None, "pos": uci_driver.fen_to_pos(fen) if fen else uci_driver.EMPTY_POS})
            eng.send("isready")
            lines, ok = eng.read_until(lambda l: l.strip() == "readyok", 60.0)
            ev += [uci_driver.classify(l) for l in lines]
            ev.append({"ev": "In", "kind": "go"})
            eng.send("go depth 1")
            lines, ok = eng.read_until(lambda l: l.startswith("bestmove"), 60.0)
            out = [uci_driver.classify(l) for l in lines]
            spawned = not any(o.get("kind") == "book" for o in out)
            if spawned:
                ev.append({"ev": "SearchStart", "fresh": True, "history_len": -1, "table_entries": -1})
            ev += out
            best = [l for l in lines if l.startswith("bestmove")]
            if not ok or not best:
                ev.append({"ev": "Hang", "after": "go", "waited_s": 60.0})
                break
            eng.send("isready")
            lines, ok = eng.read_until(lambda l: l.strip() == "readyok", 60.0)
            ev += [uci_driver.classify(l) for l in lines]
            if spawned:
                break
            moves.append(best[0].split()[1])
        ev.append({"ev": "In", "kind": "quit"})
        eng.send("quit")
        try:
            status = eng.p.wait(timeout=25)
        except Exception:
            eng.p.kill()
            status = -999
        ev.append({"ev": "Exit", "status": status, "stderr": [], "wall_s": 0})
        return ev, len(moves)
    def variant_session(kv):
        """Positions with a book placement but another history (rights lost, en-passant target cleared): go on each."""
        k, fens = kv
        ev = [{"ev": "Session", "id": 100000 + k, "wellformed": True, "pacing": "book-variants"}]
        eng = uci_driver.Engine(cli)
        answered = 0
        for fen in fens:
            ev.append({"ev": "In", "kind": "position", "base": "fen", "fen": list(fen), "pos": uci_driver.fen_to_pos(fen), "moves": [], "valid": True})
            eng.send("position fen " + fen)
            eng.send(".state")
            got = eng.read_err_fen(25.0)
            ev.append({"ev": "State", "fen": list(got) if got else [], "seen": got is not None, "pos": uci_driver.fen_to_pos(got) if got else uci_driver.EMPTY_POS})
            eng.send("isready")
            lines, ok = eng.read_until(lambda l: l.strip() == "readyok", 60.0)
            ev += [uci_driver.classify(l) for l in lines]
            # the book answers with a random one of its moves: ask again while it answers, to see more of what it offers
            for rep in range(8):
                ev.append({"ev": "In", "kind": "go"})
                eng.send("go depth 1")
                lines, ok = eng.read_until(lambda l: l.startswith("bestmove"), 60.0)
                out = [uci_driver.classify(l) for l in lines]
                book = any(o.get("kind") == "book" for o in out)
                if not book:
                    ev.append({"ev": "SearchStart", "fresh": True, "history_len": -1, "table_entries": -1})
                else:
                    answered += 1
                ev += out
                if not ok:
                    ev.append({"ev": "Hang", "after": "go", "waited_s": 60.0})
                    break
                eng.send("isready")
                lines, ok = eng.read_until(lambda l: l.strip() == "readyok", 60.0)
                ev += [uci_driver.classify(l) for l in lines]
                if not book or not ok:
                    break
            if not ok:
                break
        ev.append({"ev": "In", "kind": "quit"})
        eng.send("quit")
        try:
            status = eng.p.wait(timeout=25)
        except Exception:
            eng.p.kill()
            status = -999
        ev.append({"ev": "Exit", "status": status, "stderr": [], "wall_s": 0})
        return ev, answered
    n = 24 if quick else 400
    rnd = random.Random(seed)
    # variants in which a move recorded for the same placement (with the rights / target of the games) is not legal come first
    rel = json.load(open(bpath))
    by_place = {}
    for k, ms in rel.items():
        by_place.setdefault(" ".join(k.split()[:2]), set()).update(ms)
    vs = sorted(set(variants))
    rnd.shuffle(vs)
    sharp = [f for f, legal in vs if by_place.get(" ".join(f.split()[:2]), set()) - set(legal)]
    dull = [f for f, legal in vs if not (by_place.get(" ".join(f.split()[:2]), set()) - set(legal))]
    vs = (sharp[:(120 if quick else 3000)] + dull)[:(160 if quick else 4000)]
    vgroups = [(i, vs[i::16]) for i in range(16) if vs[i::16]]
    with ThreadPoolExecutor(max_workers=8) as ex:
        rs = list(ex.map(one, range(n))) + list(ex.map(variant_session, vgroups))
    n = len(rs)
    paths = []
    for i in range(0, n, max(1, n // NPROC)):
        pth = os.path.join(wd, "bookuci_%03d.ndjson" % i)
        with open(pth, "w") as f:
            for ev, _ in rs[i:i + max(1, n // NPROC)]:
                for e in ev:
                    f.write(json.dumps(e) + "\n")
        paths.append(pth)
    res = tlc_many([dict(module="UciTrace", trace=pth, env={"BOOK": bpath}, xmx="3g", timeout=3000) for pth in paths])
    chk.add_tlc(res)
    for r in res:
        for d in r["diags"]:
            w = d.get("what", {})
            if d.get("prop") == "TOOL":
                tool_error("driver/specification mismatch: %s" % json.dumps(d))
            if d.get("prop") == pid:
                chk.violation("|".join([pid, str(w.get("kind")), str(w.get("pos", "")), str(w.get("mv", ""))]), "UCI: %s: %s" % (w.get("kind"), json.dumps({a: b for a, b in w.items() if a != "kind"}, sort_keys=True)),
                              {"module": "UciTrace", "trace": r["trace"], "diag": d})
    chk.coverage["uci_book_sessions"] = {"sessions": n, "book_answers_followed": sum(m for _, m in rs[:len(rs) - len(vgroups)]),
                                         "history_variants_asked": len(vs), "variants_answered_from_book": sum(m for _, m in rs[len(rs) - len(vgroups):])}
    chk.coverage["traces_validated_against_impl"] = chk.coverage.get("traces_validated_against_impl", 0) + len(paths)


def check_book(pid, tier, seed):
    from check import model_check
    chk = Check(pid, tier, seed, "model_checking")
    wd = workdir(pid)
    wvbin = build()
    quick = tier == "quick"
    model_check(chk, "BookModel", cfg="BookModel", workers=2)
    model_check(chk, "BookModel", cfg="BookModelCollide", workers=2, expect_violation=True)
    gs = booktok.games(os.path.join(REPO, "book"))
    ops = booktok.trie_ops(gs, 10)
    shards = trie_shards(ops, NPROC)
    jobs = []
    for i, seq in enumerate(shards):
        gp = os.path.join(wd, "trie_%02d.ndjson" % i)
        with open(gp, "w") as f:
            for o in seq:
                f.write(json.dumps(o) + "\n")
        jobs.append(dict(module="Book", env={"GAMES": gp, "DEPTH": 10, "VARIANTS": 1, "MODE": "trie"}, stdout_path=os.path.join(wd, "book_%02d.out" % i), xmx="4g", timeout=3000))
    if not quick:
        # oracle self-check on the complete games: every token resolves uniquely, check suffixes agree
        per = (len(gs) + NPROC * 2 - 1) // (NPROC * 2)
        for i in range(0, len(gs), per):
            gp = os.path.join(wd, "full_%03d.ndjson" % i)
            with open(gp, "w") as f:
                for k, g in enumerate(gs[i:i + per]):
                    f.write(json.dumps({"g": i + k + 1, "toks": [list(t) for t in g["toks"]]}) + "\n")
            jobs.append(dict(module="Book", env={"GAMES": gp, "DEPTH": 0, "VARIANTS": 0, "MODE": "flat"}, stdout_path=os.path.join(wd, "full_%03d.out" % i), xmx="4g", timeout=6000))
    res = tlc_many(jobs)
    oracle_bad = []
    for r in res:
        if r["rc"] != 0 or r["error"]:
            sys.stderr.write(r.get("stdout", "")[-2000:])
            tool_error("Book.tla failed: %s" % r["error"])
        chk.coverage["states"] = chk.coverage.get("states", 0) + r["distinct"]
        chk.coverage["transitions"] = chk.coverage.get("transitions", 0) + r["states"]
        oracle_bad += [d for d in r["diags"] if d.get("prop") == "ORACLE"]
    if oracle_bad:
        # the specification's SAN reader / rules disagree with the game records: the oracle is not trustworthy
        tool_error("oracle self-check failed on the game files: %s" % json.dumps(oracle_bad[:3]))
    outs = [j["stdout_path"] for j in jobs if "book_" in j["stdout_path"]]
    mis = os.path.join(wd, "book_mis.ndjson")
    summ = json.loads(wv(wvbin, ["book", "--in", ",".join(outs), "--out", mis]).strip().splitlines()[-1])
    for l in open(mis):
        m = json.loads(l)
        chk.violation("|".join([pid, m["kind"], m["fen"]]), "%s: %s" % (m["kind"], json.dumps({k: v for k, v in m.items() if k not in ("prop", "kind")}, sort_keys=True)), {"replay_case": m})
    # the same relation through the UCI front end: along book games `position startpos moves ...; go` must be answered from
    # the book with a recorded move while the position is a book position, and searched once it is not
    book_rel = {}
    variants = []
    for o in outs:
        for l in open(o):
            if l.startswith('<<"GEN"'):
                g = json.loads(l[len('<<"GEN", "'):-len('">>') - 1].replace('\\"', '"').replace("\\\\", "\\"))
                if g.get("kind") == "variant":
                    variants.append((g["fen"], tuple(sorted(m[:4] + (m[6].lower() if m[6] != "." else "") for m in g["legal"]))))
                if g.get("kind") == "entry":
                    m = g["mv"]
                    book_rel.setdefault(g["key"], set()).add(m[:4] + (m[6].lower() if m[6] != "." else ""))
    bpath = os.path.join(wd, "book_rel.json")
    with open(bpath, "w") as f:
        json.dump({k: sorted(v) for k, v in book_rel.items()}, f)
    uci_part(chk, pid, wd, gs, bpath, quick, seed, variants)
    for j in jobs:
        try:
            os.remove(j["stdout_path"])
        except OSError:
            pass
    chk.coverage.update({"evaluations": summ["lookups"] + summ["variants"], "distinct_nontrivial": summ["distinct_keys"], "exhaustive": True,
                         "rule": "all %d games of all files in book/ tokenised by an independent tokenizer; Book.tla resolves every distinct (10-ply prefix, SAN token) pair (%d) with the specification's own SAN reader and rules and emits the expected relation PosKey -> moves; the real OpeningBook (as built by build.rs) is queried for every distinct position text of every key: offered set must equal the recorded set and be legal; plus history variants of book positions (rights lost, en-passant target cleared) where any offer must be legal per the specification; distinct = distinct position keys" % (len(gs), sum(1 for o in ops if o["op"] == "push")),
                         "samples": summ["samples"], "book": {k: v for k, v in summ.items() if k != "samples"}, "full_games_self_check": not quick})
    chk.assumptions += ["the harness links the OpeningBook produced by /repo's build script from /repo/book at build time"]
    chk.finish()
