"""C16: opening book against Book.tla."""
import json
import os
import sys

from wvlib import *  # noqa
import booktok


def trie_shards(ops, nshards):
    """Splits the linearised trie into self-contained shards at depth-2 subtrees."""
    subtrees = []          # (path tokens, ops of the subtree incl. its own push/pop)
    depth = 0
    path = []
    cur = None
    for o in ops:
        if o["op"] == "push":
            depth += 1
            if depth <= 2:
                path = path[:depth - 1] + [o]
            if depth == 2:
                cur = {"pre": [path[0]], "ops": []}
            if depth >= 2:
                cur["ops"].append(o)
            elif depth == 1:
                pass
        else:
            if depth >= 2:
                cur["ops"].append(o)
            if depth == 2:
                subtrees.append(cur)
                cur = None
            depth -= 1
    bins = [[0, []] for _ in range(nshards)]
    for st in sorted(subtrees, key=lambda s: -len(s["ops"])):
        b = min(bins, key=lambda b: b[0])
        b[0] += len(st["ops"])
        b[1].append(st)
    out = []
    for _, sts in bins:
        if not sts:
            continue
        seq = []
        for st in sts:
            seq += st["pre"] + st["ops"] + [{"op": "pop", "tok": [], "n": 0}]
        out.append(seq)
    return out


def check_book(pid, tier, seed):
    from check import model_check
    chk = Check(pid, tier, seed, "model_checking")
    wd = workdir(pid)
    wvbin = build()
    quick = tier == "quick"
    model_check(chk, "BookModel", cfg="BookModel", workers=2)
    model_check(chk, "BookModel", cfg="BookModelCollide", workers=2, expect_violation=True)
    gs = booktok.games(os.path.join(REPO, "book"))
    ops = booktok.trie_ops(gs, 10)
    shards = trie_shards(ops, NPROC)
    jobs = []
    for i, seq in enumerate(shards):
        gp = os.path.join(wd, "trie_%02d.ndjson" % i)
        with open(gp, "w") as f:
            for o in seq:
                f.write(json.dumps(o) + "\n")
        jobs.append(dict(module="Book", env={"GAMES": gp, "DEPTH": 10, "VARIANTS": 1, "MODE": "trie"}, stdout_path=os.path.join(wd, "book_%02d.out" % i), xmx="4g", timeout=3000))
    if not quick:
        # oracle self-check on the complete games: every token resolves uniquely, check suffixes agree
        per = (len(gs) + NPROC * 2 - 1) // (NPROC * 2)
        for i in range(0, len(gs), per):
            gp = os.path.join(wd, "full_%03d.ndjson" % i)
            with open(gp, "w") as f:
                for k, g in enumerate(gs[i:i + per]):
                    f.write(json.dumps({"g": i + k + 1, "toks": [list(t) for t in g["toks"]]}) + "\n")
            jobs.append(dict(module="Book", env={"GAMES": gp, "DEPTH": 0, "VARIANTS": 0, "MODE": "flat"}, stdout_path=os.path.join(wd, "full_%03d.out" % i), xmx="4g", timeout=6000))
    res = tlc_many(jobs)
    oracle_bad = []
    for r in res:
        if r["rc"] != 0 or r["error"]:
            sys.stderr.write(r.get("stdout", "")[-2000:])
            tool_error("Book.tla failed: %s" % r["error"])
        chk.coverage["states"] = chk.coverage.get("states", 0) + r["distinct"]
        chk.coverage["transitions"] = chk.coverage.get("transitions", 0) + r["states"]
        oracle_bad += [d for d in r["diags"] if d.get("prop") == "ORACLE"]
    if oracle_bad:
        # the specification's SAN reader / rules disagree with the game records: the oracle is not trustworthy
        tool_error("oracle self-check failed on the game files: %s" % json.dumps(oracle_bad[:3]))
    outs = [j["stdout_path"] for j in jobs if "book_" in j["stdout_path"]]
    mis = os.path.join(wd, "book_mis.ndjson")
    summ = json.loads(wv(wvbin, ["book", "--in", ",".join(outs), "--out", mis]).strip().splitlines()[-1])
    for l in open(mis):
        m = json.loads(l)
        chk.violation("|".join([pid, m["kind"], m["fen"]]), "%s: %s" % (m["kind"], json.dumps({k: v for k, v in m.items() if k not in ("prop", "kind")}, sort_keys=True)), {"replay_case": m})
    for j in jobs:
        try:
            os.remove(j["stdout_path"])
        except OSError:
            pass
    chk.coverage.update({"evaluations": summ["lookups"] + summ["variants"], "distinct_nontrivial": summ["distinct_keys"], "exhaustive": True,
                         "rule": "all %d games of all files in book/ tokenised by an independent tokenizer; Book.tla resolves every distinct (10-ply prefix, SAN token) pair (%d) with the specification's own SAN reader and rules and emits the expected relation PosKey -> moves; the real OpeningBook (as built by build.rs) is queried for every distinct position text of every key: offered set must equal the recorded set and be legal; plus history variants of book positions (rights lost, en-passant target cleared) where any offer must be legal per the specification; distinct = distinct position keys" % (len(gs), sum(1 for o in ops if o["op"] == "push")),
                         "samples": summ["samples"], "book": {k: v for k, v in summ.items() if k != "samples"}, "full_games_self_check": not quick})
    chk.assumptions += ["the harness links the OpeningBook produced by /repo's build script from /repo/book at build time"]
    chk.finish()
