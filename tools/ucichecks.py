"""C07 / C18 (and the UCI half of C14): sessions generated from Uci.tla fed to the real process."""
import json
import os
import random
import subprocess
import sys
from concurrent.futures import ThreadPoolExecutor

from wvlib import *  # noqa
import uci_driver
import searchchecks
from searchchecks import pos_to_fen, corpus_fens

TERMINALS = ["3R2k1/5ppp/8/8/8/8/8/4K3 b - - 0 1", "7k/5Q2/6K1/8/8/8/8/8 b - - 0 1", "r1bqkbnr/pppp1Qpp/2n5/4p3/2B1P3/8/PPPP1PPP/RNB1K1NR b KQkq - 0 3",
             "k7/2Q5/1K6/8/8/8/8/8 b - - 0 1"]
COLLISION = [("4k3/p6p/Pp4pP/1Pp2pP1/2Pp1P2/3P4/8/4K2R w K - 0 1", "4k3/p6p/Pp4pP/1Pp2pP1/2Pp1P2/3P4/8/4K2R w - - 0 1")]
TINY = ["5K1k/6pP/6P1/8/6p1/6P1/8/8 w - - 0 1"]

GARBAGE = ["", "   ", "xyzzy", "go depth", "go depth x", "go movetime -5", "go movetime 99999999999999999999", "go depth 18446744073709551616", "go wtime",
           "position", "position fen", "position fen 8/8/8/8 w - - 0 1", "position fen rnbqkbnr/pppppppp/8/8/8/8/PPPPPPPP/RNBQKBNR w KQkq - x y",
           "position fen " + "/".join(["8" * 32] * 8) + " w - - 0 1", "position fen 9/8/8/8/8/8/8/8 w - - 0 1", "position fen rnbqkbnr/pppppppp/8/8/8/8/PPPPPPPP/RNBQKBNR w KQkq e9 0 1",
           "position startpos moves e2", "position startpos moves e", "position startpos moves", "position startpos moves e2e4q9", "position startpos moves é2e4",
           "position startpos moves e2eé", "position startpos moves e2e4 e7e5 zzzz", "position startpos moves e2e5", "position startpos moves a1a1", "position startpos moves e7e8q",
           "position fen ♚7/8/8/8/8/8/8/K7 w - - 0 1", "isreadyy", "stop stop", "uci\tuci", "ééé", "go depth 1 depth", "position startpos moves e2e4e7e5", "ucinewgame now",
           "position fen 4k3/8/8/8/8/8/8/4K3 w - - 99999999999999999999 1", "position fen 4k3/8/8/8/8/8/8/4K3 w KQkq - 0 1", "position fen 4k3/8/8/8/8/8/8/4K3 x - - 0 1", "a" * 5000]


def garbage_cmd(g):
    """A garbage line is still the command its first word names (the engine only complains about the arguments)."""
    first = g.split()[0] if g.split() else ""
    c = {"kind": "garbage", "line": g, "text": [ord(ch) for ch in g[:60]]}
    if first == "position":
        c.update({"kind": "position", "valid": False, "state": True, "base": "garbage", "fen": [], "pos": uci_driver.EMPTY_POS, "moves": []})
    elif first in ("go", "stop", "ucinewgame", "uci"):
        c["kind"] = first
    return c


def move_triples(evs, k):
    return [[e["mv"]["from"], e["mv"]["to"], e["mv"]["promo"]] for e in evs[:k]]


def lan(m):
    sq = lambda n: "abcdefgh"[(n - 1) % 8] + str((n - 1) // 8 + 1)
    return sq(m["from"]) + sq(m["to"]) + (m["promo"].lower() if m["promo"] != "." else "")


class Pool:
    def __init__(self, wvbin, wd, seed):
        self.rnd = random.Random(seed * 41 + 7)
        wv(wvbin, ["play", "--seed", seed, "--games", 30, "--plies", 30, "--emit", "move", "--corpus", os.path.join(CORPUS, "positions.fen"), "--out-prefix", os.path.join(wd, "pool")])
        self.games = []
        cur = None
        for l in open(os.path.join(wd, "pool.move.ndjson")):
            e = json.loads(l)
            if e["ev"] == "Reset":
                cur = {"pos": e["pos"], "moves": []}
                self.games.append(cur)
            elif e["ev"] == "Move":
                cur["moves"].append(e)
        wv(wvbin, ["play", "--seed", seed + 1, "--games", 10, "--plies", 12, "--emit", "move", "--out-prefix", os.path.join(wd, "poolstart")])
        self.hard_roots = [l.strip() for l in open(os.path.join(CORPUS, "doomed.fen")) if l.strip() and not l.startswith("#")]
        self.hard_roots += searchchecks.forced_roots()
        self.start_games = []
        for l in open(os.path.join(wd, "poolstart.move.ndjson")):
            e = json.loads(l)
            if e["ev"] == "Reset":
                cur = {"pos": e["pos"], "moves": []}
                self.start_games.append(cur)
            elif e["ev"] == "Move":
                cur["moves"].append(e)

    def position_cmd(self, kind):
        r = self.rnd
        if kind == "book":
            g = r.choice(self.start_games)
            k = r.choice([0, 0, 1, 2])
            mv = g["moves"][:k]
            line = "position startpos" + (" moves " + " ".join(lan(m["mv"]) for m in mv) if mv else "")
            return {"kind": "position", "line": line, "base": "startpos", "fen": [], "pos": uci_driver.EMPTY_POS, "moves": move_triples(mv, k), "valid": True}
        if kind == "term":
            f = r.choice(TERMINALS)
            return {"kind": "position", "line": "position fen " + f, "base": "fen", "fen": list(f), "pos": uci_driver.fen_to_pos(f), "moves": [], "valid": True}
        if r.random() < 0.25:
            g = r.choice(self.start_games)
            k = r.randrange(3, len(g["moves"]) + 1) if len(g["moves"]) >= 3 else len(g["moves"])
            mv = g["moves"][:k]
            return {"kind": "position", "line": "position startpos moves " + " ".join(lan(m["mv"]) for m in mv), "base": "startpos", "fen": [], "pos": uci_driver.EMPTY_POS,
                    "moves": move_triples(mv, k), "valid": True}
        if r.random() < 0.15:
            f = r.choice(COLLISION[0] + tuple(TINY))
            return {"kind": "position", "line": "position fen " + f, "base": "fen", "fen": list(f), "pos": uci_driver.fen_to_pos(f), "moves": [], "valid": True}
        if r.random() < 0.10:
            # the side to move is lost whatever it plays (mate in one after every move) or has a single legal move: a bestmove is owed
            f = r.choice(self.hard_roots)
            return {"kind": "position", "line": "position fen " + f, "base": "fen", "fen": list(f), "pos": uci_driver.fen_to_pos(f), "moves": [], "valid": True}
        if r.random() < 0.12:
            # late in a long game: the halfmove clock at or past 100 does not end the game, a go is still owed its bestmove
            g = r.choice(self.games)
            half = r.choice([98, 99, 100, 101, 150, 300])
            p2 = dict(g["pos"], half=half, full=max(g["pos"]["full"], half // 2 + 1))
            f = pos_to_fen(p2)
            k = r.choice([0, 0, 1, 2]) if len(g["moves"]) >= 2 else 0
            mv = g["moves"][:k]
            line = "position fen " + f + (" moves " + " ".join(lan(m["mv"]) for m in mv) if mv else "")
            return {"kind": "position", "line": line, "base": "fen", "fen": list(f), "pos": p2, "moves": move_triples(mv, k), "valid": True}
        g = r.choice(self.games)
        k = r.randrange(0, min(len(g["moves"]), 12) + 1)
        # never end on a position without legal moves for an "open" slot: TLC decides anyway
        mv = g["moves"][:k]
        f = pos_to_fen(g["pos"])
        line = "position fen " + f + (" moves " + " ".join(lan(m["mv"]) for m in mv) if mv else "")
        return {"kind": "position", "line": line, "base": "fen", "fen": list(f), "pos": g["pos"], "moves": move_triples(mv, k), "valid": True}


# pieces other than the king on the king's home square with the back rank open (move texts that read like castling), both colours
BACK_RANK_FENS = ["4r1k1/5ppp/8/8/8/8/5PPP/4R1K1 w - - 0 1", "6k1/5ppp/8/8/8/8/5PPP/4Q1K1 w - - 3 9", "4r1k1/5ppp/8/8/8/8/5PPP/4R1K1 b - - 0 1", "4q1k1/5ppp/8/8/8/8/5PPP/6K1 b - - 5 12",
                  "r3k2r/8/8/8/8/8/8/R3K2R w KQkq - 0 1", "r3k2r/8/8/8/8/8/8/R3K2R b KQkq - 0 1", "r3k2r/8/8/8/8/8/8/R3K2R w - - 0 1", "3rk3/8/8/8/8/8/8/3RK3 w - - 0 1",
                  # promotions (quiet and capturing, all four pieces), en passant with two capturers, both colours
                  "3r1n2/4P1k1/8/8/8/8/4p1K1/3R1N2 w - - 0 1", "3r1n2/4P1k1/8/8/8/8/4p1K1/3R1N2 b - - 0 1", "4k3/8/8/1PpP4/8/8/8/4K3 w - c6 0 2", "4k3/8/8/8/1pPp4/8/8/4K3 b - c3 0 1"]


def every_move_sessions(pool, wvbin, wd, seed, quick):
    """For selected positions, every legal move as a one-move list: `position fen F moves m`, then the engine's position is read
    back (`.state`) and compared with the specification's Apply by UciTrace.tla."""
    cpath = os.path.join(wd, "backrank.fen")
    with open(cpath, "w") as f:
        f.write("\n".join(BACK_RANK_FENS) + "\n")
    wv(wvbin, ["play", "--seed", seed + 9, "--games", len(BACK_RANK_FENS), "--plies", 1, "--emit", "move", "--corpus", cpath, "--out-prefix", os.path.join(wd, "backrank")])
    firsts = []
    cur = None
    for l in open(os.path.join(wd, "backrank.move.ndjson")):
        e = json.loads(l)
        if e["ev"] == "Reset":
            cur = e["pos"]
        elif e["ev"] == "Move" and cur is not None:
            firsts.append((cur, e["moves"]))
            cur = None
    for g in pool.games[:(6 if quick else 30)]:
        if g["moves"]:
            firsts.append((g["pos"], g["moves"][0]["moves"]))
            k = min(len(g["moves"]) - 1, 7)
            if k >= 1:
                firsts.append((g["moves"][k - 1]["next"], g["moves"][k]["moves"]))
    sessions = []
    for i, (p, moves) in enumerate(firsts):
        f = pos_to_fen(p)
        cm = []
        for m in moves:
            cm.append({"kind": "position", "line": "position fen %s moves %s" % (f, lan(m)), "base": "fen", "fen": list(f), "pos": p, "moves": [[m["from"], m["to"], m["promo"]]], "valid": True})
        cm.append({"kind": "quit", "line": "quit"})
        sessions.append((300000 + i, True, "immediate", cm))
    return sessions


def concretize(gen, pool, rnd, garbage=False):
    cmds = [{"kind": "uci", "line": "uci"}] if rnd.random() < 0.5 else []
    if gen["start"] != "book":
        cmds.append(pool.position_cmd(gen["start"]))
    seq = gen["cmds"]
    i = 0
    while i < len(seq):
        c = seq[i]
        nxt = seq[i + 1] if i + 1 < len(seq) else None
        if c == "go":
            if nxt == "fin":
                cmds.append({"kind": "go", "line": rnd.choice(["go depth 1", "go depth 2", "go depth 3", "go movetime 0", "go movetime 40", "go movetime 200"])})
            else:
                cmds.append({"kind": "go", "line": rnd.choice(["go depth 2", "go depth 3", "go depth 5", "go movetime 300", "go", "go depth 4 movetime 2000"])})
        elif c == "fin":
            cmds.append({"kind": "wait", "line": "", "timeout": 60.0})
        elif c == "position same":
            last = [x for x in cmds if x.get("kind") == "position" and x.get("valid")]
            cmds.append(dict(last[-1]) if last else pool.position_cmd("open"))
        elif c.startswith("position "):
            cmds.append(pool.position_cmd(c.split()[1]))
        elif c == "garbage":
            if garbage:
                cmds.append(garbage_cmd(rnd.choice(GARBAGE)))
            else:
                cmds.append({"kind": "isready", "line": "isready"})
        elif c == "quit":
            cmds.append({"kind": "eof", "line": ""} if rnd.random() < 0.3 else {"kind": "quit", "line": "quit"})
        elif c == "ucinewgame":
            cmds.append({"kind": "ucinewgame", "line": "ucinewgame", "state": True})
        else:
            cmds.append({"kind": c, "line": c})
        i += 1
    return cmds


def gen_sequences(chk, wd, seed, n, maxcmds=9):
    """Command sequences from the specification (TLC simulation of UciGen)."""
    nproc = min(NPROC, 8)
    jobs = []
    for i in range(nproc):
        outp = os.path.join(wd, "ucigen_%02d.out" % i)
        jobs.append(dict(module="UciGen", stdout_path=outp, extra=["-simulate", "num=%d" % ((n + nproc - 1) // nproc), "-depth", "60", "-seed", str(seed * 733 + i)], xmx="2g"))
    res = tlc_many(jobs)
    gens = []
    for r, j in zip(res, jobs):
        if r["rc"] != 0 or r["error"]:
            sys.stderr.write(r.get("stdout", "")[-2000:])
            tool_error("UciGen failed: %s" % r["error"])
        for l in open(j["stdout_path"]):
            if l.startswith('<<"GEN"'):
                gens.append(json.loads(l[len('<<"GEN", "'):-len('">>') - 1].replace('\\"', '"').replace("\\\\", "\\")))
        os.remove(j["stdout_path"])
    return gens[:n]


def run_sessions(cli, wd, name, sessions, parallel=12):
    """sessions: list of (id, wellformed, pacing, cmds). Returns trace files (one per worker)."""
    chunks = [sessions[i::parallel] for i in range(parallel) if sessions[i::parallel]]

    def one(ic):
        i, chunk = ic
        path = os.path.join(wd, "%s_%02d.ndjson" % (name, i))
        with open(path, "w") as f:
            for sid, wellformed, pacing, cmds in chunk:
                f.write(json.dumps({"ev": "Session", "id": sid, "wellformed": wellformed, "pacing": pacing}) + "\n")
                for e in uci_driver.run_session(cli, cmds, pacing=pacing):
                    e = {k: v for k, v in e.items() if k != "line"}
                    f.write(json.dumps(e) + "\n")
        return path
    with ThreadPoolExecutor(max_workers=parallel) as ex:
        return list(ex.map(one, enumerate(chunks)))


def validate(chk, traces, pid):
    from check import fold_diags
    res = tlc_many([dict(module="UciTrace", trace=t, xmx="3g", timeout=3000) for t in traces])
    chk.add_tlc(res)
    for r in res:
        for d in r["diags"]:
            if d.get("prop") == "TOOL":
                tool_error("driver/specification mismatch: %s" % json.dumps(d))
    # session-level keys
    others = {}
    cache = {}
    for r in res:
        for d in r["diags"]:
            if d.get("prop") != pid:
                others[d.get("prop")] = others.get(d.get("prop"), 0) + 1
                continue
            w = d["what"]
            sid = w.get("session")
            if len(chk.violations) > 200:
                chk.violations.append(chk.violations[-1])       # only counted
                continue
            if r["trace"] not in cache:
                cache.clear()
                cache[r["trace"]] = [json.loads(x) for x in open(r["trace"])]
            evs = cache[r["trace"]]
            sess, cur = [], None
            for e in evs:
                if e["ev"] == "Session":
                    cur = e["id"]
                if cur == sid:
                    sess.append(e)
            key = "|".join([pid, str(w.get("kind")), str(w.get("pos", "")), str(w.get("mv", ""))])
            chk.violation(key, "%s: %s" % (w.get("kind"), json.dumps({a: b for a, b in w.items() if a != "kind"}, sort_keys=True)), {"module": "UciTrace", "events": sess[:200], "diag": d})
    if others:
        chk.notes.append("diagnostics for other properties in the same transcripts (reported by their own checks): %s" % others)
    chk.coverage["traces_validated_against_impl"] = chk.coverage.get("traces_validated_against_impl", 0) + len(traces)
    chk.coverage["events_validated"] = chk.coverage.get("events_validated", 0) + sum(r["accepted"] or 0 for r in res)


def transcript_stats(traces):
    st = {"sessions": 0, "commands": 0, "go": 0, "bestmoves": 0, "book_answers": 0, "searches_started": 0, "ucinewgame": 0, "garbage_lines": 0, "positions": 0}
    sample = []
    for t in traces:
        for l in open(t):
            e = json.loads(l)
            if e["ev"] == "Session":
                st["sessions"] += 1
                if len(sample) < 2:
                    sample.append([])
            if e["ev"] == "In":
                st["commands"] += 1
                st["go"] += e["kind"] == "go"
                st["ucinewgame"] += e["kind"] == "ucinewgame"
                st["garbage_lines"] += e["kind"] == "garbage" or e.get("valid") is False
                st["positions"] += e["kind"] == "position"
            if e["ev"] == "Out" and e["kind"] == "bestmove":
                st["bestmoves"] += 1
            if e["ev"] == "Out" and e["kind"] == "book":
                st["book_answers"] += 1
            if e["ev"] == "SearchStart":
                st["searches_started"] += 1
            if sample and len(sample[-1]) < 25 and st["sessions"] <= 2:
                sample[-1].append({k: ("".join(v) if k in ("fen", "mv") and isinstance(v, list) else v) for k, v in e.items() if k not in ("pos", "text")})
    return st, sample


def newgame_behaviour(chk, wvbin, wd, pid, quick, rnd):
    """Below the front end: earlier games in the process, then a search that is handed no memory (what ucinewgame arranges),
    compared event by event with the same search (same seed) in a fresh process - SearchTrace!TNewGame."""
    fens = searchchecks.corpus_fens() + searchchecks.play_fens(wvbin, wd, chk.seed + 31, 6, 40, every=4)
    rnd.shuffle(fens)
    used, fresh = [], []
    for i in range(16 if quick else 200):
        x = {"fen": fens[(i * 3) % len(fens)], "depth": rnd.choice([2, 3, 3]), "seed": rnd.randrange(1 << 30), "workers": 1, "tables": 8, "buckets": 1024}
        earlier = [{"fen": fens[(i * 3 + 1 + k) % len(fens)], "depth": 3, "seed": rnd.randrange(1 << 30), "workers": 1, "tables": 8, "buckets": 1024, "reuse": k > 0, "tag": "old-game"}
                   for k in range(rnd.choice([3, 6, 10]))]
        if i % 2 == 0:
            # the old game ends on the very position the new game starts with
            earlier.append(dict(x, seed=rnd.randrange(1 << 30), reuse=True, tag="old-game"))
        used.append({"id": i, "steps": earlier + [dict(x, reuse=False, tag="N")]})
        fresh.append({"id": i, "steps": [dict(x, reuse=False, tag="F")]})
    t1 = searchchecks.run_scripts(wvbin, wd, "ng_used", used)
    t2 = searchchecks.run_scripts(wvbin, wd, "ng_fresh", fresh, nproc=min(len(fresh), 48))      # (nearly) one process per fresh run

    def collect(traces, tag):
        runs, cur = {}, None
        for t in traces:
            for l in open(t):
                e = json.loads(l)
                if e["ev"] == "SearchStart":
                    cur = e["sid"] if e["tag"] == tag else None
                    if cur is not None:
                        runs[cur] = []
                elif cur is not None and e["ev"] in ("Report", "Progress"):
                    runs[cur].append(json.dumps(e, sort_keys=True))
                elif cur is not None and e["ev"] == "SearchEnd":
                    runs[cur].append("end:%s:nodes=%s" % (e["status"], e["nodes"]))
        return runs
    a, b = collect(t1, "N"), collect(t2, "F")
    path = os.path.join(wd, "newgame.ndjson")
    with open(path, "w") as f:
        for u in used:
            x = u["steps"][-1]
            if u["id"] not in a or u["id"] not in b:
                tool_error("missing run for new-game case %s" % u["id"])
            f.write(json.dumps({"ev": "NewGame", "fen": x["fen"], "seed": str(x["seed"]), "depth": x["depth"], "earlier": len(u["steps"]) - 1, "used": a[u["id"]], "fresh": b[u["id"]]}) + "\n")
    res = tlc_many([dict(module="SearchTrace", trace=p, xmx="3g") for p in shard(path, 4)])
    chk.add_tlc(res)
    from check import fold_diags
    fold_diags(chk, res, pid)
    chk.coverage["newgame_behaviour"] = {"cases": len(used), "earlier_searches": sum(len(u["steps"]) - 1 for u in used)}
    chk.coverage["traces_validated_against_impl"] = chk.coverage.get("traces_validated_against_impl", 0) + 1


def check_uci(pid, tier, seed):
    from check import model_check
    chk = Check(pid, tier, seed, "model_checking")
    wd = workdir(pid)
    wvbin = build()
    cli = build_cli()
    quick = tier == "quick"
    rnd = random.Random(seed * 53 + 1)
    model_check(chk, "Uci", cfg="Uci" if quick else "UciBig", workers=4)
    model_check(chk, "Uci", cfg="UciPinned", workers=2, expect_violation=True)
    model_check(chk, "Uci", cfg="UciLive", workers=2)        # liveness: every owed bestmove is eventually printed (fair SearchFinish)
    # for command sequences of any length: the invariants are inductive (Apalache), not inductive for the pinned handler
    from check import apalache_inductive
    apalache_inductive(chk, "UciInd", guard_cinit="ConstInitPinned")
    if pid == "C07":
        # the same session at the grain of its threads; refinement of Uci.tla checked by TLC; two counterexample guards
        model_check(chk, "UciThreads", cfg="UciThreads" if quick else "UciThreadsBig", workers=4)
        model_check(chk, "UciThreads", cfg="UciThreadsShared", workers=2, expect_violation=True)
        model_check(chk, "UciThreads", cfg="UciThreadsFirst", workers=2, expect_violation=True)
        model_check(chk, "UciThreads", cfg="UciThreadsLive", workers=2)
    pool = Pool(wvbin, wd, seed)
    gens = gen_sequences(chk, wd, seed, 90 if quick else 2500)
    sessions = []
    for i, g in enumerate(gens):
        if pid == "C18" and "ucinewgame" not in g["cmds"]:
            # place ucinewgame after a prefix
            k = rnd.randrange(1, len(g["cmds"]))
            g = dict(g, cmds=g["cmds"][:k] + ["ucinewgame", "go", "fin"] + g["cmds"][k:])
        sessions.append((i, True, ["immediate", "delay", "immediate"][i % 3], concretize(g, pool, rnd, garbage=False)))
    # hand-written histories the properties name explicitly
    extra = [
        ["position open", "go", "stop", "ucinewgame", "go", "fin", "quit"],
        ["position open", "go", "fin", "position open2", "ucinewgame", "go", "fin", "quit"],
        ["position open", "go", "ucinewgame", "position open", "go", "stop", "quit"],
        ["go", "go", "fin", "quit"], ["position term", "go", "isready", "position open", "go", "fin", "quit"],
        ["position open", "go", "fin", "ucinewgame", "position same", "go", "fin", "quit"], ["position open", "ucinewgame", "position same", "go", "stop", "position same", "go", "fin", "quit"],
        ["position open2", "go", "stop", "position same", "go", "fin", "ucinewgame", "position same", "isready", "go", "fin", "quit"],
        ["position term", "go", "ucinewgame", "position open", "go", "fin", "quit"], ["position term", "go", "stop", "ucinewgame", "go", "position open", "go", "fin", "quit"],
        ["position term", "go", "position open2", "ucinewgame", "position open", "go", "fin", "quit"],
        ["position open", "go", "isready", "isready", "stop", "stop", "go", "quit"],
        # the first go of the new game is answered from the book (no search starts): the new game still begins with the next real search
        ["position open", "go", "stop", "ucinewgame", "position book", "go", "position open", "go", "fin", "quit"],
        ["position open", "go", "fin", "position open2", "ucinewgame", "position book", "go", "go", "position open2", "go", "stop", "quit"],
        ["position open", "go", "fin", "position book", "go", "ucinewgame", "go", "position same", "go", "position open", "go", "fin", "quit"],
        ["position term", "go", "position open", "go", "stop", "ucinewgame", "position book", "go", "position term", "go", "position open", "go", "fin", "quit"],
    ]
    # isready during a long search: readyok must come before that search's bestmove
    for j in range(4 if quick else 40):
        pc = pool.position_cmd("open")
        sessions.append((200000 + j, True, "immediate", [pc, {"kind": "go", "line": "go movetime 9000", "long": True}, {"kind": "isready", "line": "isready"},
                                                            {"kind": "stop", "line": "stop"}, {"kind": "quit", "line": "quit"}]))
    if pid == "C07":
        for j, f in enumerate(pool.hard_roots if not quick else pool.hard_roots[seed % 3::3]):
            pc = {"kind": "position", "line": "position fen " + f, "base": "fen", "fen": list(f), "pos": uci_driver.fen_to_pos(f), "moves": [], "valid": True}
            sessions.append((250000 + j, True, "immediate", [pc, {"kind": "go", "line": rnd.choice(["go depth 1", "go depth 3", "go movetime 200"])}, {"kind": "wait", "line": "", "timeout": 60.0},
                                                             {"kind": "go", "line": "go"}, {"kind": "stop", "line": "stop"}, {"kind": "quit", "line": "quit"}]))
    for j, cmdsq in enumerate(extra * (1 if quick else 10)):
        sessions.append((100000 + j, True, "immediate", concretize({"start": "book", "cmds": cmdsq}, pool, rnd)))
    if pid == "C07":
        sessions += every_move_sessions(pool, wvbin, wd, seed, quick)
    if pid == "C18":
        newgame_behaviour(chk, wvbin, wd, pid, quick, rnd)
    traces = run_sessions(cli, wd, "uci", sessions)
    validate(chk, traces, pid)
    if pid == "C07":
        import threadsessions
        threadsessions.thread_part(chk, pid, wd, quick, seed)
    st, sample = transcript_stats(traces)
    chk.coverage.update({"evaluations": st["commands"], "distinct_nontrivial": st["go"] if pid == "C07" else st["ucinewgame"],
                         "rule": "UCI sessions: command sequences produced by TLC simulation of Uci.tla (go/stop/position/ucinewgame/isready/quit with the model's internal SearchFinish placed anywhere), instantiated with book, open, terminal, colliding and tiny-tree positions and legal move lists, fed to the real `weechess uci` process with an isready barrier after every command and `.state` after every position; three pacing modes; non-trivial = " + ("go commands" if pid == "C07" else "ucinewgame commands"),
                         "samples": sample[:1], "transcript_stats": st})
    chk.assumptions += ["stdout is one ordered stream; everything a cancelling command causes precedes its readyok (the handlers join the writer thread)",
                        "the i-th SearchStart line on stderr belongs to the i-th go that was not answered from the book"]
    chk.finish()


def check_c14(pid, tier, seed):
    from check import textgen, validate_stream
    chk = Check(pid, tier, seed, "exploration")
    wd = workdir(pid)
    wvbin = build()
    wvdbg = build("debug")
    cli = build_cli()
    quick = tier == "quick"
    rnd = random.Random(seed * 59 + 14)
    # 1. parsers: the specification's mutation model applied to canonical texts, both build profiles
    pool = Pool(wvbin, wd, seed)
    bases = []
    fens = corpus_fens()[:6] + [pos_to_fen(g["moves"][min(5, len(g["moves"]) - 1)]["next"]) for g in pool.games[:4 if quick else 30] if g["moves"]]
    # every field in every form: an en-passant target for either side, all four rights, none
    fens += ["rnbqkbnr/ppp1pppp/8/3pP3/8/8/PPPP1PPP/RNBQKBNR w KQkq d6 0 3", "rnbqkbnr/pppp1ppp/8/8/3Pp3/8/PPP1PPPP/RNBQKBNR b KQkq d3 0 3", "4k3/8/8/8/8/8/8/4K3 w - - 0 1"]
    for f in fens:
        bases.append({"ev": "Base", "kind": "fen", "cps": [ord(c) for c in f]})
    for t in ["e4", "Nbxd5+", "O-O-O", "O-O#", "exd8=Q+", "R1a3", "Qh4xe1", "fxg1=N", "bxa8N", "Kd2"]:
        bases.append({"ev": "Base", "kind": "san", "cps": [ord(c) for c in t]})
    bpath = os.path.join(wd, "bases.ndjson")
    with open(bpath, "w") as f:
        for b in bases:
            f.write(json.dumps(b) + "\n")
    shards = shard(bpath, NPROC)
    jobs = []
    for i, sp in enumerate(shards):
        outp = os.path.join(wd, "mut_%02d.out" % i)
        jobs.append(dict(module="TextGen", trace=sp, env={"MODE": "mutate", "STRIDE": 4 if quick else 1, "PHASE": seed % (4 if quick else 1)}, stdout_path=outp, xmx="5g", timeout=3000))
    res = tlc_many(jobs)
    for r in res:
        if r["rc"] != 0 or r["error"]:
            sys.stderr.write(r.get("stdout", "")[-2000:])
            tool_error("TextGen mutate failed: %s" % r["error"])
        chk.coverage["states"] = chk.coverage.get("states", 0) + r["distinct"]
        chk.coverage["transitions"] = chk.coverage.get("transitions", 0) + r["states"]
    outs = [j["stdout_path"] for j in jobs]
    ptraces = []
    summ = {}

    def runparse(args):
        binp, name, o, i = args
        tr = os.path.join(wd, "parse_%s_%02d.ndjson" % (name, i))
        s = json.loads(wv(binp, ["parse", "--in", o, "--out", tr, "--seed", seed * 10 + i, "--random", 1500 if quick else 40000]).strip().splitlines()[-1])
        return tr, name, s
    with ThreadPoolExecutor(max_workers=NPROC) as ex:
        for tr, name, s in ex.map(runparse, [(wvbin, "release", o, i) for i, o in enumerate(outs)] + [(wvdbg, "debug", o, i) for i, o in enumerate(outs)]):
            ptraces.append(tr)
            d = summ.setdefault(name, {"strings": 0, "by_outcome": {}})
            d["strings"] += s["strings"]
            for k, v in s["by_outcome"].items():
                d["by_outcome"][k] = d["by_outcome"].get(k, 0) + v
    cli_texts = []
    for o in outs[:4]:
        for ln in open(o):
            if ln.startswith('<<"GEN"') and len(cli_texts) < 40000:
                g = json.loads(ln[len('<<"GEN", "'):-len('">>') - 1].replace('\\"', '"').replace("\\\\", "\\"))
                if g.get("kind") == "fen":
                    cli_texts.append(g["cps"])
    for o in outs:
        os.remove(o)
    res = tlc_many([dict(module="ChessTrace", trace=t, xmx="3g") for t in ptraces])
    chk.add_tlc(res)
    for r in res:
        for d in r["diags"]:
            if d.get("prop") != pid:
                continue
            w = d["what"]
            text = "".join(chr(c) for c in w.get("text", []) if isinstance(c, int)) if isinstance(w.get("text"), list) else ""
            chk.violation("|".join([pid, w["kind"], w["parser"], w["profile"], text[:120]]),
                          "%s: %s parser, %s build, outcome %s on %r" % (w["kind"], w["parser"], w["profile"], w["outcome"], text[:120]), {"diag": d, "text": text, "trace": r["trace"]})
    # 1b. the same FEN texts as the command line's --fen argument (`weechess display`): exit 0 or the error exit, never a crash
    texts = [cps for cps in cli_texts if all(isinstance(c, int) and 0 < c < 0x110000 and not (0xD800 <= c <= 0xDFFF) for c in cps) and len(cps) < 4000]
    rnd.shuffle(texts)
    texts = texts[:(240 if quick else 6000)]

    def display(cps):
        try:
            r = subprocess.run([cli, "display", "--fen=" + "".join(chr(c) for c in cps)], capture_output=True, timeout=20)
            return "ok" if r.returncode == 0 else "err" if r.returncode == 1 else "exit %d: %s" % (r.returncode, r.stderr.decode("utf-8", "replace")[-120:])
        except subprocess.TimeoutExpired:
            return "hang"
        except (ValueError, OSError) as ex:
            return "err"      # the operating system refused the argument (embedded NUL, too long): nothing reached the program
    with ThreadPoolExecutor(max_workers=NPROC) as ex:
        outcomes = list(ex.map(display, texts))
    cpath = os.path.join(wd, "parse_cli.ndjson")
    with open(cpath, "w") as f:
        for i in range(0, len(texts), 50):
            f.write(json.dumps({"ev": "Parse", "kind": "cli-display", "profile": "release", "texts": texts[i:i + 50], "outcomes": outcomes[i:i + 50]}) + "\n")
    summ["cli-display"] = {"strings": len(texts), "by_outcome": {k: outcomes.count(k) for k in set(outcomes)}}
    res = tlc_many([dict(module="ChessTrace", trace=cpath, xmx="3g")])
    chk.add_tlc(res)
    for r in res:
        for d in r["diags"]:
            if d.get("prop") == pid:
                w = d["what"]
                text = "".join(chr(c) for c in w.get("text", []) if isinstance(c, int))
                chk.violation("|".join([pid, w["kind"], w["parser"], text[:120]]), "%s: `weechess display --fen`, outcome %s on %r" % (w["kind"], w["outcome"], text[:120]), {"diag": d, "text": text, "trace": r["trace"]})
    # 2. the UCI loop: garbage lines inside model-generated sessions, still answering isready afterwards
    gens = gen_sequences(chk, wd, seed, 30 if quick else 800)
    sessions = []
    for i, g in enumerate(gens):
        cm = list(g["cmds"])
        # make sure there is garbage: replace some isready / add
        for k in range(len(cm)):
            if cm[k] == "isready" or (cm[k] == "stop" and rnd.random() < 0.3):
                cm[k] = "garbage"
        if "garbage" not in cm:
            cm.insert(rnd.randrange(0, len(cm)), "garbage")
        sessions.append((i, False, "immediate", concretize(dict(g, cmds=cm), pool, rnd, garbage=True)))
    # every garbage line at least once, right before a go
    for j, gline in enumerate(GARBAGE):
        cm = [garbage_cmd(gline)]
        cm += [{"kind": "go", "line": "go depth 1"}, {"kind": "wait", "line": "", "timeout": 60.0}, {"kind": "quit", "line": "quit"}]
        sessions.append((50000 + j, False, "immediate", cm))
    traces = run_sessions(cli, wd, "uci14", sessions)
    validate(chk, traces, pid)
    st, sample = transcript_stats(traces)
    tot = sum(d["strings"] for d in summ.values())
    chk.coverage.update({"evaluations": tot + st["commands"], "distinct_nontrivial": sum(d["by_outcome"].get("err", 0) for d in summ.values()) + st["garbage_lines"],
                         "rule": "strings: every single mutation (drop/duplicate/swap/replace by special and multi-byte code points/insert/truncate/digit floods) and field mutation (drop, duplicate, swap, floods, 2^64, empty) of canonical FENs and SAN tokens plus a strided sample of double mutations, generated by TextGen.tla's mutation model, plus seeded random strings; parsed by the FEN and SAN readers in a debug-profile build (overflow checks, debug assertions) and a release build; UCI: model-generated sessions with garbage lines (unknown commands, truncated/over-long/non-ASCII move tokens, bad numbers, bad FENs) injected, each followed by the isready barrier; non-trivial = strings the parsers rejected + garbage lines sent",
                         "samples": [{"garbage_line": GARBAGE[10]}, {"garbage_line": GARBAGE[20]}] + sample[:1], "parser_outcomes": summ, "transcript_stats": st})
    chk.assumptions += ["catch_unwind observes panics of the parsers; a parse taking > 5 s is a hang", "totality over all strings is approximated by the documented mutation model"]
    chk.finish()
