#!/bin/sh
# Builds the harness (release) against /repo's working tree, offline, and self-tests the rules oracle.
set -e
cd "$(dirname "$0")/.."
export CARGO_NET_OFFLINE=true
(cd harness && cargo build --release --offline -q 2>/dev/null || cargo build --release --offline -q)
python3 tools/selftest.py
