#!/bin/sh
# Builds the harness (release) against /repo's working tree, offline; self-tests the rules oracle;
# solves the K+R v K / K+Q v K tablebases and has TLC check every entry (cached under work/tb).
set -e
cd "$(dirname "$0")/.."
export CARGO_NET_OFFLINE=true
mkdir -p work
(cd harness && cargo build --release --offline -q 2> ../work/setup-build.log) || { tail -50 work/setup-build.log; exit 1; }
python3 tools/selftest.py
python3 -c "
import sys; sys.path.insert(0, 'tools')
from wvlib import ensure_tb
ensure_tb()
print('tablebases ready')"
